#!/bin/bash
# tools/seedcheck.sh <ID> [tier] [variant]  - take the seeded change from /tmp/wt/<ID>/SEED if a sub-agent just left one there (else /verif/seeded/<ID><variant>), confirm it in a scratch worktree
# (demo passes without / fails with the change, pinned test-suite unchanged), then run ./vcheck <ID> against /repo with the change applied
# and undo it straight afterwards.  Nothing is ever committed to /repo.
set -u
ID=$1; TIER=${2:-quick}; VAR=${3:-}
V=/verif; SRC=/tmp/wt/$ID/SEED; DST=$V/seeded/$ID$VAR
mkdir -p $DST
if [ -f $SRC/patch.diff ]; then cp $SRC/patch.diff $SRC/demo.py $DST/ 2>/dev/null; cp $SRC/notes.md $DST/notes.md 2>/dev/null; fi
[ -f $DST/patch.diff ] || { echo "no patch for $ID"; exit 2; }
W=/var/tmp/seedwt_$ID$VAR
git -C /repo worktree remove --force $W 2>/dev/null; rm -rf $W
git -C /repo worktree add -q --detach $W HEAD
mkdir -p $W/SEED; cp $DST/demo.py $W/SEED/
( cd $W && /venv/bin/python SEED/demo.py >/tmp/seed_$ID.clean 2>&1 ); rc_clean=$?
( cd $W && git apply $DST/patch.diff ) || { echo "patch does not apply"; git -C /repo worktree remove --force $W; exit 2; }
( cd $W && /venv/bin/python SEED/demo.py >/tmp/seed_$ID.seeded 2>&1 ); rc_seeded=$?
( cd $W && /venv/bin/python -m pytest -q -p no:cacheprovider --timeout=900 2>&1 | grep -E '^FAILED' | sed 's/ - .*//' | sort > /tmp/seed_$ID.failed )
if diff -q $V/tools/baseline_failed.txt /tmp/seed_$ID.failed >/dev/null; then tests=same; else tests=DIFFERENT; fi
git -C /repo worktree remove --force $W; rm -rf $W
echo "$ID demo clean rc=$rc_clean seeded rc=$rc_seeded tests=$tests"
# now the check against /repo with the change applied
git -C /repo apply $DST/patch.diff || { echo "cannot apply to /repo"; exit 2; }
# the evidence file of the property must keep describing the UNCHANGED tree: set it aside while the seeded tree is checked
[ -f $V/evidence/$ID.json ] && cp $V/evidence/$ID.json /var/tmp/evidence_keep_$ID.json
out=$(cd $V && ./vcheck $ID --tier $TIER 2>&1); rc=$?
git -C /repo checkout -- .
[ -f /var/tmp/evidence_keep_$ID.json ] && mv /var/tmp/evidence_keep_$ID.json $V/evidence/$ID.json
echo "$out" | grep -E "tier=|^VIOLATION|^HARNESS-ERROR|^KNOWN" | head -6 | cut -c1-220
echo "$ID vcheck($TIER) rc=$rc"
python3 - "$ID" "$rc_clean" "$rc_seeded" "$tests" "$TIER" "$rc" "$VAR" <<'PY'
import json, sys, os
ID, rc_clean, rc_seeded, tests, tier, rc, var = sys.argv[1:]
p = '/verif/seeded/%s%s/meta.json' % (ID, var)
meta = json.load(open(p)) if os.path.exists(p) else {}
meta.update({'property': ID, 'demo_exit_unchanged': int(rc_clean), 'demo_exit_with_change': int(rc_seeded), 'pinned_tests': tests})
meta.setdefault('runs', {})[tier] = {'vcheck_exit': int(rc), 'detected': int(rc) == 1}
meta['what_i_ran'] = ['scratch worktree of /repo HEAD under /var/tmp: demo.py before/after `git apply patch.diff`; pytest failing-set diff against the 36 baseline failures',
                      'git -C /repo apply patch.diff; ./vcheck %s --tier <tier>; git -C /repo checkout -- .' % ID]
json.dump(meta, open(p, 'w'), indent=1)
PY
