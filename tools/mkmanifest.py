#!/usr/bin/env python3
"""Regenerates /verif/MANIFEST.json from the check modules (vchecks/cNN.py: PROPERTY, LEVEL_TEXT, LEVEL_NOTE, TECHNIQUE)."""
import importlib
import json
import os
import sys

HERE = os.path.dirname(os.path.dirname(os.path.abspath(__file__)))
sys.path.insert(0, HERE)
sys.path.insert(0, '/repo')

ALL = ['C%02d' % i for i in range(1, 21)]
NOT_BUILT = {}
if os.path.exists(os.path.join(HERE, 'tools', 'not_applicable.json')):
    NOT_BUILT = json.load(open(os.path.join(HERE, 'tools', 'not_applicable.json')))

checks, na = [], []
for pid in ALL:
    path = os.path.join(HERE, 'vchecks', pid.lower() + '.py')
    if not os.path.exists(path) or pid in NOT_BUILT:
        na.append({'property_id': pid, 'reason': NOT_BUILT.get(pid, 'check not built yet in this round (planned, see DESIGN.md section 4)')})
        continue
    m = importlib.import_module('vchecks.' + pid.lower())
    checks.append({
        'property_id': pid,
        'quick_cmd': './vcheck %s --tier quick' % pid,
        'thorough_cmd': './vcheck %s --tier thorough' % pid,
        'evidence_file': 'evidence/%s.json' % pid,
        'replay_cmd_template': './vcheck replay {path}',
        'engine': 'symx',
        'level_claimed': {'category': 'other',
                          'text': getattr(m, 'LEVEL_TEXT', 'Bounded symbolic execution of the real code: ' + m.EXPLANATION),
                          'design_ref': 'DESIGN.md section 4, ' + pid},
        'level_note': getattr(m, 'LEVEL_NOTE', 'Trusted: z3, CPython, the symx engine and the stubs listed in the evidence; floats are exact reals; '
                                               'bounds: ' + m.BOUNDS['quick'] + ' / thorough: ' + m.BOUNDS['thorough'] + '; outside the claim: ' + '; '.join(m.OUTSIDE)),
        'technique': getattr(m, 'TECHNIQUE', 'bounded symbolic execution of the real Python code (own shadow-value engine), obligations decided by z3; counterexamples replayed concretely'),
    })
man = {
    'version': 1,
    'setup_cmd': './setup.sh',
    'hooks': {'guard': 'MITX_GRADING_LIBRARY_VERIF', 'enable': 'no source hooks are needed: the checks import /repo unmodified (PYTHONPATH=/repo) and shadow names in module namespaces at run time',
              'baseline_off_cmd': 'cd /repo && /venv/bin/python -m pytest -ra -q -p no:cacheprovider --timeout=900 --continue-on-collection-errors',
              'source_commits': json.load(open(os.path.join(HERE, 'tools', 'source_commits.json'))) if os.path.exists(os.path.join(HERE, 'tools', 'source_commits.json')) else [],
              'add_only': True},
    'engines': [{'name': 'symx', 'path': 'symx/', 'serves_properties': [c['property_id'] for c in checks],
                 'kind_free_text': 'shadow-value symbolic executor for Python on z3 (DFS re-execution over decision prefixes, sharded over 16 processes); '
                                   'regex->z3 translator; sym-aware leaf shims for pyparsing'}],
    'checks': checks,
    'not_applicable': na,
    'notes': 'All checks run the unmodified sources of /repo on symbolic inputs; see DESIGN.md. Exit 0 = all obligations discharged on all explored paths '
             '(inconclusive items are printed and recorded), exit 1 = concretely reproduced violation (line VIOLATION property=<id> replay=<path>; '
             './vcheck replay <path> re-runs it on the real code), exit 3 = harness error. Findings: known_findings.txt (six fixed: lines, no known: line; never written at '
             'run time). Harnesses named as concrete companions in the claim texts enumerate listed values the solver cannot produce (NaN, numpy scalar types, '
             'doubles that underflow, LAPACK-backed modes); what they establish is those listed cases. Seeded changes used to evaluate the checks: seeded/ and DESIGN.md 8.6.',
}
json.dump(man, open(os.path.join(HERE, 'MANIFEST.json'), 'w'), indent=1)
print('MANIFEST: %d checks, %d not_applicable' % (len(checks), len(na)))
