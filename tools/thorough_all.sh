#!/bin/bash
# run every thorough check sequentially against $VERIF_REPO (default /repo); summary lines go to stdout
cd "$(dirname "$0")/.."
for i in ${@:-$(seq -w 1 20)}; do
  s=$(date +%s)
  out=$(./vcheck C$i --tier thorough 2>&1); rc=$?
  echo "C$i rc=$rc $(( $(date +%s) - s ))s $(echo "$out" | grep -E 'tier=' | cut -c1-200)"
  echo "$out" | grep -E -A8 "^VIOLATION|^HARNESS-ERROR|^KNOWN" | head -60 | cut -c1-700
  echo "$out" | grep -E "^INCONCLUSIVE" | head -8 | cut -c1-220
done
