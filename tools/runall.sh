#!/bin/bash
# run every check's quick (or given) tier sequentially; summary lines only
cd "$(dirname "$0")/.."
tier=${1:-quick}
for i in $(seq -w 1 20); do
  s=$(date +%s)
  out=$(./vcheck C$i --tier $tier 2>&1); rc=$?
  echo "C$i rc=$rc $(( $(date +%s) - s ))s $(echo "$out" | grep -E 'tier=' | cut -c1-170)"
  echo "$out" | grep -E "^VIOLATION|^HARNESS-ERROR|^KNOWN" | head -3 | cut -c1-200
done
