import json, jsonschema, glob, sys
jsonschema.validate(json.load(open('/verif/MANIFEST.json')), json.load(open('/root/.vp/MANIFEST.schema.json')))
for f in glob.glob('/verif/evidence/*.json'):
    jsonschema.validate(json.load(open(f)), json.load(open('/root/.vp/EVIDENCE.schema.json')))
print('manifest + %d evidence files valid' % len(glob.glob('/verif/evidence/*.json')))
