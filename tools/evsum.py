import json,sys
e=json.load(open('/verif/evidence/%s.json'%sys.argv[1]))
for h in e['coverage']['harnesses']: print(h.get('harness', h.get('harness_group')),'paths',h['paths'],'pruned',h['infeasible_pruned'],'q',h['queries'],'s',h['solver_s'],'exh',h['exhaustive'],'val',h['witness_validated'],'mm',h['witness_mismatch'])
print('wall',e['wall_s'])
