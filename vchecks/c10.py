"""C10 - reported name usage is exact and parsing is independent of parse history."""
import string

import z3

from symx import Harness, pname, sand, sor, simplies, siff, snot, SymBool, Abort
from symx.stubs import shadow
from symx.text import SymStr, SymChar, K, fresh_str, any_unicode
from symx import ppshim

PROPERTY = 'C10'
EXPLANATION = ('(1) The real pyparsing combinators, the repository\'s grammar object and its parse actions run on SYMBOLIC strings (every Unicode string up to '
               'the length bound; four character-level leaf routines of pyparsing have validated sym-aware twins); for every accepted string the '
               'reported variable / function / suffix sets must equal those computed by an independent scanner - none missing, none spurious, never '
               'confused. (2) One inductive step of MathParser.parse from an ARBITRARY state satisfying the invariant (any cache contents, empty '
               'scratch sets), with the grammar replaced by a nondeterministic stub that fires the real parse actions with symbolic choices and then '
               'succeeds or fails: afterwards the scratch sets are empty again, the result carries exactly this call\'s names (not aliased with parser '
               'storage), and the cache gains exactly the space-stripped key on success - which covers histories of any length. (3) All call sequences '
               'up to the bound on the shared PARSER equal a fresh parser\'s outcome.'
               ' Histories containing full grader calls (evaluation plus every post-evaluation validator) and a string nested beyond the recursion limit.')
ASSUMPTIONS = ['the invariant of the inductive step: scratch sets are empty between calls; cache maps space-free strings to results',
               'lone surrogates excluded from the alphabet']
BOUNDS = {'quick': 'all Unicode strings of length <= 4 (exact names); inductive step with <= 2 fired actions over 5 names; all sequences of <= 3 calls over 12 strings',
          'thorough': 'all Unicode strings of length <= 5 (path budget 400000); sequences of <= 4 calls'}
OUTSIDE = ['strings longer than the bound (names exactness)', 'evaluation values (C03)']
DEADLINE = {'quick': 600, 'thorough': 2400}
FUNCS = ['MathParser.parse/raw_parse/reset_storage', 'MathParser.variable_parse_action/function_parse_action/suffix_parse_action', 'MathParser.get_grammar (141 pyparsing elements)',
         'BracketValidator.validate', 'expressions.parse (shared PARSER)', 'pyparsing And/MatchFirst/Opt/ZeroOrMore/Forward/Group/Suppress/NotAny/FollowedBy/DelimitedList/Literal/StringEnd']
STUBS = ['pyparsing leaf shims: ParserElement.preParse, Word.parseImpl, CaselessLiteral.parseImpl, Combine.postParse (validated at start-up)',
         'inductive step: grammar.parseString -> nondeterministic stub firing the real parse actions']
ALPHA = string.ascii_letters
ALNUM = string.ascii_letters + string.digits
DIGITS = string.digits
SEP = ' \t\n\r'


def _in(c, chars):
    return bool(c.in_set(chars))


def scan(chars):
    """independent name scanner for strings the parser ACCEPTED (chars: list of SymChar, spaces already removed).
    returns (variables, functions, suffixes) as lists of SymStr"""
    i, n = 0, len(chars)
    V, F, S = [], [], []

    def skip_ws(k):
        while k < n and _in(chars[k], SEP):
            k += 1
        return k
    while i < n:
        c = chars[i]
        if _in(c, DIGITS + '.'):
            j = i
            while j < n and _in(chars[j], DIGITS + '.'):
                j += 1
            if j < n and _in(chars[j], 'eE'):
                k = j + 1
                if k < n and _in(chars[k], '+-—'):
                    k += 1
                if k < n and _in(chars[k], DIGITS):
                    while k < n and _in(chars[k], DIGITS):
                        k += 1
                    j = k
            k = skip_ws(j)
            m = k
            while m < n and _in(chars[m], ALPHA + '%'):
                m += 1
            if m > k:
                S.append(SymStr(chars[k:m]))
                i = m
            else:
                i = j
        elif _in(c, ALPHA):
            j = i + 1
            while j < n and _in(chars[j], ALNUM):
                j += 1
            k = j
            while k < n and _in(chars[k], ALNUM + '_'):
                k += 1
            if k > j and not (k < n and _in(chars[k], '{')):
                j = k                                   # plain subscripts
            else:
                for opener in ('_', '^'):               # tensor indices _{..} then ^{..}
                    if j + 1 < n and _in(chars[j], opener) and _in(chars[j + 1], '{'):
                        k = j + 2
                        if k < n and _in(chars[k], '-'):
                            k += 1
                        k0 = k
                        while k < n and _in(chars[k], ALNUM):
                            k += 1
                        if k > k0 and k < n and _in(chars[k], '}'):
                            j = k + 1
            while j < n and _in(chars[j], "'"):
                j += 1
            name = SymStr(chars[i:j])
            k = skip_ws(j)
            if k < n and _in(chars[k], '('):
                F.append(name)
            else:
                V.append(name)
            i = j
        else:
            i += 1
    return V, F, S


def same_set(symset, lst):
    a = list(symset)
    for x in a:
        if not any(bool(x == y) for y in lst):
            return False
    for y in lst:
        if not any(bool(x == y) for x in a):
            return False
    return True


_P = {}


def _parser():
    import mitxgraders.helpers.calc.expressions as X
    if 'p' not in _P:
        _P['p'] = X.MathParser()
    return _P['p']


def h_names(E, N):
    import mitxgraders.helpers.calc.expressions as X
    from mitxgraders.helpers.calc.exceptions import UnableToParse, UnbalancedBrackets
    P = _parser()
    P.cache = {}
    s = fresh_str(E, 's', N, any_unicode, minlen=1)
    with ppshim.installed(P.grammar):
        try:
            r = P.parse(s)
        except (UnableToParse, UnbalancedBrackets) as e:
            E.check('scratch-sets-empty-after-failure', not P.variables_used and not P.functions_used and not P.suffixes_used)
            return type(e).__name__
    chars = s.ch if isinstance(s, SymStr) else [K(c) for c in s]
    # parse() strips spaces and pyparsing expands tabs to spaces: both only separate tokens
    stripped = [c for c in chars if not bool(c == ' ')]
    V, F, S = scan(stripped)
    E.check('variables-exact', same_set(r.variables_used, V))
    E.check('functions-exact', same_set(r.functions_used, F))
    E.check('suffixes-exact', same_set(r.suffixes_used, S))
    E.check('scratch-sets-empty-after-success', not P.variables_used and not P.functions_used and not P.suffixes_used)
    return ['ok', len(V), len(F), len(S)]


NAMES = ['x', 'y', 'f', 'k', "x'"]
INPUTS = ['a+b', 'a + b', ' a+b ', 'old1', 'new', ' n e w ', 'old 2']


def h_inductive(E):
    """one step of MathParser.parse from an arbitrary invariant state, grammar replaced by a nondeterministic action-firing stub"""
    import mitxgraders.helpers.calc.expressions as X
    from mitxgraders.helpers.calc.exceptions import UnableToParse, CalcError
    from pyparsing import ParseException
    P = X.MathParser()
    if not all(hasattr(P, a) for a in ('cache', 'grammar', 'variables_used', 'functions_used', 'suffixes_used', 'reset_storage')):
        E.check('skipped-internals-renamed', True)
        return 'skipped'
    old1 = X.MathExpression('old1', 'TREE1', {'p'}, set(), set())
    old2 = X.MathExpression('old2', 'TREE2', set(), {'q'}, {'k'})
    # arbitrary pre-state: any subset of two old entries, plus possibly the entry for the string about to be parsed
    cache = {}
    if E.fork_bool('cache_has_old1'):
        cache['old1'] = old1
    if E.fork_bool('cache_has_old2'):
        cache['old2'] = old2
    expr = E.choice('input', INPUTS)
    key = expr.replace(' ', '')
    P.cache = dict(cache)
    fired = {'v': [], 'f': [], 's': []}
    nfire = E.fork_int('fired_actions', 0, 2)
    plan = []
    for i in range(nfire):
        plan.append((E.choice('kind%d' % i, ['v', 'f', 's']), E.choice('name%d' % i, NAMES)))
    outcome = E.choice('outcome', ['tree', 'ParseException', 'RecursionError'])

    class StubGrammar:
        def parseString(self, s, *a, **k):
            for kind, name in plan:
                if kind == 'v':
                    P.variable_parse_action([[name]])
                elif kind == 'f':
                    P.function_parse_action([[name]])
                else:
                    P.suffix_parse_action([name])
                fired[kind].append(name)
            if outcome == 'tree':
                return ['TREE-' + s]
            if outcome == 'ParseException':
                raise ParseException(s, 0, 'stub')
            raise RecursionError('stub')
        parse_string = parseString
    P.grammar = StubGrammar()
    hit = key in cache
    try:
        r = P.parse(expr)
        err = None
    except UnableToParse:
        r, err = None, 'UnableToParse'
    except RecursionError:
        r, err = None, 'RecursionError'
    E.check('scratch-sets-empty-after-every-call', P.variables_used == set() and P.functions_used == set() and P.suffixes_used == set())
    if hit:
        E.check('cache-hit-returns-stored-result-untouched', err is None and r is cache[key] and P.cache == cache and fired == {'v': [], 'f': [], 's': []})
        return 'hit'
    E.check('outcome-follows-grammar', (err is None) == (outcome == 'tree') and (err is None or err == outcome.replace('ParseException', 'UnableToParse')))
    if err is None:
        E.check('result-carries-exactly-this-calls-names', r.variables_used == set(fired['v']) and r.functions_used == set(fired['f']) and r.suffixes_used == set(fired['s'])
                and r.tree == 'TREE-' + key)
        E.check('result-not-aliased-with-parser-storage', r.variables_used is not P.variables_used and r.functions_used is not P.functions_used
                and r.suffixes_used is not P.suffixes_used)
        E.check('cache-gains-exactly-the-space-stripped-key', set(P.cache) == set(cache) | {key} and P.cache[key] is r and all(P.cache[k] is cache[k] for k in cache))
        r2 = P.parse(' ' + key[0] + ' ' + key[1:])
        E.check('equal-modulo-spaces-hits-same-entry', r2 is r)
    else:
        E.check('failure-leaves-cache-unchanged', P.cache == cache)
    E.check('old-entries-untouched', old1.variables_used == {'p'} and old2.functions_used == {'q'} and old2.suffixes_used == {'k'})
    return err or 'ok'


DEEP = 'x+' + '(' * 150 + 'f(x)' + ')' * 150      # beyond the depth the parser can reach under the recursion limit set in h_history
HIST = [DEEP, 'x+y', 'x + y', 'f(x)', 'f(x', '2k+k', 'x(', "x'", 'x_1+x', '1+', 'sin(f)+f', '', 'e1+1e1', '[x,y]', 'x\t_1+x', 'x\t+\ty', '2\tk+k', 'x\xa0+y']


def _outcome(parser_parse, s):
    from mitxgraders.helpers.calc.exceptions import CalcError
    try:
        r = parser_parse(s)
        return ('ok', ppshim.tree_repr(r.tree), sorted(r.variables_used), sorted(r.functions_used), sorted(r.suffixes_used))
    except CalcError as e:
        return ('err', type(e).__name__, str(e))
    except RecursionError:
        return ('err', 'RecursionError', '')          # nesting beyond the interpreter's depth: an outcome like any other - and it must leave nothing behind


def h_history(E, length):
    import sys
    old = sys.getrecursionlimit()
    sys.setrecursionlimit(1200)          # the interpreter default is 1000; DEEP exceeds either
    try:
        return _history(E, length)
    finally:
        sys.setrecursionlimit(old)


def _history(E, length):
    import mitxgraders.helpers.calc.expressions as X
    from mitxgraders.exceptions import MITxError
    X.PARSER.cache = {}
    x = E.real('x', 1, 2)
    for step in range(length):
        s = E.choice('s%d' % step, HIST)
        got = _outcome(X.parse, s)
        want = _outcome(X.MathParser().parse, s)
        E.check('outcome-independent-of-history', got == want)
        E.check('scratch-sets-empty-after-every-call', not X.PARSER.variables_used and not X.PARSER.functions_used and not X.PARSER.suffixes_used)
        if s and got[0] == 'ok':
            env = {'x': x, 'y': 3.0, "x'": 4.0, 'x_1': 5.0, 'f': 2.0, 'e1': 7.0}
            fns = dict(X.DEFAULT_FUNCTIONS, f=lambda t: t + 1)
            try:
                v1 = X.evaluator(s, env, fns, {'k': 1000.0, '%': 0.01}, max_array_dim=1)[0]
                v2 = X.MathParser().parse(s).eval(env, fns, {'k': 1000.0, '%': 0.01})[0]
                same = bool(v1.shape == v2.shape and all(bool(a == b) if not hasattr(a == b, 'e') else E.check('value-independent-of-history', a == b) for a, b in zip(v1, v2))) \
                    if hasattr(v1, 'shape') else None
                if same is None:
                    E.check('value-independent-of-history', v1 == v2)
            except MITxError as e:
                pass
    return 'ok'


SCOPED = ['5k', '2k+1', '1e999', '3%', 'x+2k', 'k', '2k*k', '7', '1||-1', 'ln(0)', '[1,2]/0', 'cot(0)', '1/(x-x)', 'x||0']
# outcomes that are the same in every scope and after every history (the error CLASS is part of the outcome)
ABSOLUTE = {'1||-1': ('error', 'CalcZeroDivisionError'), 'ln(0)': ('error', 'CalcZeroDivisionError'), '[1,2]/0': ('error', 'CalcZeroDivisionError'),
            'cot(0)': ('error', 'CalcZeroDivisionError'), '1/(x-x)': ('error', 'CalcZeroDivisionError'), 'x||0': ('value', repr(complex(0.0)))}
SCOPES = [dict(suffixes={'k': 1000.0, '%': 0.01}, allow_inf=False), dict(suffixes={'k': 1024.0, '%': 0.5}, allow_inf=False), dict(suffixes={'%': 0.01}, allow_inf=False),
          dict(suffixes={'k': 1000.0, '%': 0.01}, allow_inf=True)]


def h_scope_history(E, length):
    """the same string evaluated again under ANOTHER scope (other suffix values, a suffix removed, infinities allowed or not, another value of x): each
    evaluation gives what a fresh parser gives under that scope - nothing of an earlier evaluation is remembered"""
    import mitxgraders.helpers.calc.expressions as X
    from mitxgraders.exceptions import MITxError
    X.PARSER.cache = {}
    import numpy as _np
    errstate_before = dict(_np.geterr())

    def outcome(f):
        try:
            v = f()[0]
            return ('value', repr(complex(v)))
        except MITxError as e:
            return ('error', type(e).__name__)
    for step in range(length):
        s = E.choice('s%d' % step, SCOPED)
        sc = SCOPES[E.fork_int('scope%d' % step, 0, len(SCOPES) - 1)]
        env = {'x': float(step + 1), 'k': 7.0}
        got = outcome(lambda: X.evaluator(s, env, X.DEFAULT_FUNCTIONS, sc['suffixes'], allow_inf=sc['allow_inf']))
        want = outcome(lambda: X.MathParser().parse(s).eval(env, X.DEFAULT_FUNCTIONS, sc['suffixes'], allow_inf=sc['allow_inf']))
        E.check('value-independent-of-history', got == want)
        if s in ABSOLUTE:
            E.check('error-class-independent-of-history', got == ABSOLUTE[s])
    import numpy as np
    E.check('floating-point-error-handling-untouched', dict(np.geterr()) == errstate_before)
    return 'ok'


NAME_CATALOGUE = [
    ('T^{-1}', ['T^{-1}'], [], []), ("U_{-2}^{-3}'(y)", ['y'], ["U_{-2}^{-3}'"], []), ('[a^{-b},1]', ['a^{-b}'], [], []), ('2^A^{-1}', ['A^{-1}'], [], []),
    ("x_{1}^{2}'+x_{1}^{2}", ["x_{1}^{2}'", 'x_{1}^{2}'], [], []), ("f'(x')+f(x)", ["x'", 'x'], ["f'", 'f'], []), ('a_1_2*a_1', ['a_1_2', 'a_1'], [], []),
    ('2k*k+3%', ['k'], [], ['k', '%']), ('x^{a}+x^a', ['x^{a}', 'x', 'a'], [], []), ('T_{a}^{b}_{c}' if False else 'T_{-a}^{b}', ['T_{-a}^{b}'], [], []),
    ("g_{0}''(t_{-1})", ['t_{-1}'], ["g_{0}''"], []), ('sin(cos(x))^tan', ['x', 'tan'], ['sin', 'cos'], []), ('1e3e', [], [], ['e']), ('e1+1e1', ['e1'], [], []),
    ('A^{-1}^{-1}' if False else 'A^{-1}^2', ['A^{-1}'], [], []), ('[f(x),g,h(1)]', ['x', 'g'], ['f', 'h'], []), ('x_{10}^{-10}', ['x_{10}^{-10}'], [], []),
]


def h_name_catalogue(E, idx):
    """names with every documented decoration (negative lower AND upper tensor indices, primes, subscripts, suffix look-alikes), longer than the strings
    the symbolic harness reaches: exactly the listed variables, functions and suffixes are reported, by the shared parser and by a fresh one"""
    import mitxgraders.helpers.calc.expressions as X
    from mitxgraders.helpers.calc.exceptions import CalcError
    expr, vs, fs, ss = NAME_CATALOGUE[idx]
    for parser in (X.PARSER, X.MathParser()):
        try:
            r = parser.parse(expr)
        except CalcError as e:
            E.check('documented-name-forms-are-parsed', False)
            return type(e).__name__
        E.check('documented-name-forms-are-parsed', True)
        E.check('names-exact', (sorted(r.variables_used), sorted(r.functions_used), sorted(r.suffixes_used)) == (sorted(vs), sorted(fs), sorted(ss)))
    return 'ok'


GRADED = ['sin(f)+f', 'f(x)', 'x+y', 'sin(x)+0*cos(x)', '2k+k', 'f(x)+sin(x\t)', '[x,f(y)]', 'f(x']


def h_graded_history(E, length):
    """histories that contain full grader calls (evaluation + every post-evaluation validator) on the shared parser: the names reported for a string
    afterwards are those a fresh parser reports, and an evaluation in a scope lacking its functions still raises UndefinedFunction"""
    import mitxgraders.helpers.calc.expressions as X
    from mitxgraders import FormulaGrader, MatrixGrader, NumericalGrader
    from mitxgraders.exceptions import MITxError
    from mitxgraders.helpers.calc.exceptions import UndefinedFunction, CalcError
    X.PARSER.cache = {}
    seen = []
    for step in range(length):
        s = E.choice('s%d' % step, GRADED)
        kind = E.choice('grader%d' % step, ['formula', 'matrix', 'formula-required', 'formula-whitelist'])
        kw = dict(answers=s, variables=['x', 'y'], user_functions={'f': lambda t: t + 1}, metric_suffixes=True, samples=2)
        if kind == 'formula-required':
            kw['required_functions'] = ['f']
        if kind == 'formula-whitelist':
            kw['whitelist'] = ['sin', 'cos']
        cls = MatrixGrader if kind == 'matrix' else FormulaGrader
        try:
            g = cls(max_array_dim=1, **kw) if kind == 'matrix' else cls(**kw)
            r = g(None, s)
            verdict = str(r['ok'])
        except MITxError as e:
            verdict = type(e).__name__
        E.note('verdict%d' % step, verdict)
        seen.append(s)
        for t in seen:
            got = _outcome(X.parse, t)
            want = _outcome(X.MathParser().parse, t)
            E.check('names-after-grading-are-those-of-a-fresh-parser', got == want)
            if want[0] == 'ok' and want[3]:
                try:
                    X.evaluator(t, {'x': 1.0, 'y': 2.0, 'f': 3.0}, {}, {'k': 1000.0})
                    E.check('missing-function-still-reported-after-grading', False)
                except UndefinedFunction:
                    E.check('missing-function-still-reported-after-grading', True)
                except CalcError:
                    pass
        E.check('scratch-sets-empty-after-every-call', not X.PARSER.variables_used and not X.PARSER.functions_used and not X.PARSER.suffixes_used)
    return 'ok'


def selftest():
    from symx import text
    text.selftest(rounds=25)
    ppshim.selftest()


def harnesses(tier):
    hs = []
    T = tier == 'thorough'

    def add(fn, base, params, bounds, **kw):
        hs.append(Harness(pname(base, **params), fn, tuple(params.values()), FUNCS, bounds, STUBS, **kw))
    add(h_names, 'names', dict(N=5 if T else 4), 'all Unicode strings up to that length', max_paths=400000 if T else None, validate=True)
    add(h_inductive, 'inductive_step', {}, 'arbitrary cache subset x 7 inputs x <=2 fired actions over 5 names x 3 grammar outcomes', validate=False)
    for i in range(len(NAME_CATALOGUE)):
        add(h_name_catalogue, 'name_catalogue', dict(i=i), NAME_CATALOGUE[i][0], validate=False)
    add(h_scope_history, 'scope_history', dict(length=3 if T else 2), 'all sequences over 8 strings x 4 scopes (suffix values, missing suffix, allow_inf)', validate=False)
    add(h_graded_history, 'graded_history', dict(length=3 if T else 2), 'all sequences of grader calls (4 grader configurations x 8 strings) on the shared PARSER', validate=False)
    add(h_history, 'history', dict(length=4 if T else 3), 'all sequences over 17 strings (incl. tab / newline / no-break-space twins) on the shared PARSER', validate=False)
    return hs
