"""C20 - configuration validation enforces documented option domains and fills defaults."""
import contextlib
import copy
import numpy as np

from symx import Harness, pname, sand, sor, simplies, siff, near_le, near_eq, snot, is_sym, SymReal, SymInt
from symx.stubs import shadow, sym_isinstance, make_table_grader

PROPERTY = 'C20'
EXPLANATION = ('For every numeric option of every public grader / sampler / comparer / credit-schedule class a z3 number goes through the REAL '
               'constructor (the vendored voluptuous Range / All / Any / NotIn / literal validators run on it); z3 decides that construction '
               'succeeds exactly when the value lies in the documented domain (oracle table written from the documentation), that the stored '
               'value is the one supplied and that every other option carries its documented default. Cross-option rules (whitelist and '
               'blacklist, unordered lists with several subgraders, groupings, nested delimiters, name collisions, unsuppressed overrides, unknown '
               'keys) are decided with symbolic presence flags; answers normalisation, Cls(obj.config) == obj and kwargs/dict equivalence are '
               'checked on a generated catalogue of answer formats.'
               ' NaN for every real-valued option with a bounded domain; 23 percentage texts (zero, negative, malformed, padded); list-answer lengths at both nesting levels as symbolic integers.')
ASSUMPTIONS = ['numeric option values range over [-3,4] (reals) / -3..4 (integers); wrong-TYPE values are a finite generated catalogue, not symbolic',
               'the documented domains are those of docs/ and the class docstrings (oracle table in this file)']
BOUNDS = {'quick': '45 numeric options x any value in range; 12 cross-option rules with all presence-flag combinations; 14 answer formats',
          'thorough': 'same (the space is exhausted in the quick tier)'}
OUTSIDE = ['non-finite percentage texts (nan%, inf%)', 'wrong-type values beyond the catalogue', 'IntegralGrader options (scipy absent)', 'plugin-registered defaults']
DEADLINE = {'quick': 600, 'thorough': 600}
FUNCS = ['ObjectWithSchema.__init__/validate_config', 'voluptuous.Schema/Range/All/Any/NotIn/Length/Coerce (vendored)', 'validatorfuncs.Positive/NonNegative/NumberRange/'
         'PercentageString/is_shape_specification', 'ItemGrader.schema_answers/validate_single_answer', 'ListGrader.__init__/schema_answers/validate_grouping',
         'SingleListGrader.__init__', 'MathMixin.validate_math_config', 'math_helpers.validate_blacklist_whitelist_config/validate_no_collisions/warn_if_override',
         'SummationGraderBase.validate_input_positions', 'schema_config of every public class']
STUBS = ['voluptuous isinstance shadow (SymReal passes as float, SymInt as int - the types a real caller supplies)']


@contextlib.contextmanager
def vshadow():
    import voluptuous.schema_builder as VS
    import voluptuous.validators as VV
    with shadow(VS, isinstance=sym_isinstance), shadow(VV, isinstance=sym_isinstance):
        yield


def _classes():
    import mitxgraders as m
    from mitxgraders.comparers import MatrixEntryComparer, LinearComparer
    return m, MatrixEntryComparer, LinearComparer


# option table: key -> (constructor thunk taking the value, kind 'int'|'real', domain predicate, path to stored value)
def TABLE():
    m, MEC, LC = _classes()
    ge = lambda k: (lambda v: v >= k)     # noqa
    unit = lambda v: sand(v >= 0, v <= 1)   # noqa
    T = {}

    def opt(name, build, kind, dom, get):
        T[name] = (build, kind, dom, get)
    cfg = lambda key: (lambda o: o.config[key])   # noqa
    opt('FormulaGrader.tolerance', lambda v: m.FormulaGrader(answers='1', tolerance=v), 'real', ge(0), cfg('tolerance'))
    opt('FormulaGrader.samples', lambda v: m.FormulaGrader(answers='1', samples=v), 'int', ge(1), cfg('samples'))
    opt('FormulaGrader.failable_evals', lambda v: m.FormulaGrader(answers='1', failable_evals=v), 'int', ge(0), cfg('failable_evals'))
    opt('FormulaGrader.max_array_dim', lambda v: m.FormulaGrader(answers='1', max_array_dim=v), 'int', ge(0), cfg('max_array_dim'))
    opt('NumericalGrader.tolerance', lambda v: m.NumericalGrader(answers='1', tolerance=v), 'real', ge(0), cfg('tolerance'))
    opt('NumericalGrader.samples', lambda v: m.NumericalGrader(answers='1', samples=v), 'int', lambda v: v == 1, cfg('samples'))
    opt('NumericalGrader.failable_evals', lambda v: m.NumericalGrader(answers='1', failable_evals=v), 'int', lambda v: v == 0, cfg('failable_evals'))
    opt('MatrixGrader.identity_dim', lambda v: m.MatrixGrader(answers='1', identity_dim=v), 'int', ge(0), cfg('identity_dim'))
    opt('MatrixGrader.max_array_dim', lambda v: m.MatrixGrader(answers='1', max_array_dim=v), 'int', ge(0), cfg('max_array_dim'))
    opt('MatrixGrader.entry_partial_credit', lambda v: m.MatrixGrader(answers='1', entry_partial_credit=v), 'real', unit, cfg('entry_partial_credit'))
    opt('MatrixGrader.tolerance', lambda v: m.MatrixGrader(answers='1', tolerance=v), 'real', ge(0), cfg('tolerance'))
    sg = dict(answers={'lower': '1', 'upper': '2', 'summand': 'n', 'summation_variable': 'n'})
    opt('SumGrader.infty_val', lambda v: m.SumGrader(infty_val=v, **sg), 'real', lambda v: v > 0, cfg('infty_val'))
    opt('SumGrader.infty_val_fact', lambda v: m.SumGrader(infty_val_fact=v, **sg), 'real', lambda v: v > 0, cfg('infty_val_fact'))
    opt('SumGrader.even_odd', lambda v: m.SumGrader(even_odd=v, **sg), 'int', lambda v: sand(v >= 0, v <= 2), cfg('even_odd'))
    opt('SumGrader.samples', lambda v: m.SumGrader(samples=v, **sg), 'int', ge(1), cfg('samples'))
    opt('SumGrader.tolerance', lambda v: m.SumGrader(tolerance=v, **sg), 'real', ge(0), cfg('tolerance'))
    opt('SumGrader.input_positions.lower', lambda v: m.SumGrader(input_positions={'lower': v}, **sg), 'int', lambda v: v == 1, lambda o: o.config['input_positions']['lower'])
    opt('StringGrader.min_length', lambda v: m.StringGrader(answers='a', min_length=v), 'int', ge(0), cfg('min_length'))
    opt('StringGrader.min_words', lambda v: m.StringGrader(answers='a', min_words=v), 'int', ge(0), cfg('min_words'))
    opt('answer.grade_decimal(StringGrader)', lambda v: m.StringGrader(answers={'expect': 'a', 'grade_decimal': v}), 'real', unit, lambda o: o.config['answers'][0]['grade_decimal'])
    opt('answer.grade_decimal(FormulaGrader)', lambda v: m.FormulaGrader(answers={'expect': '1', 'grade_decimal': v}), 'real', unit, lambda o: o.config['answers'][0]['grade_decimal'])
    opt('answer.grade_decimal(int)', lambda v: m.StringGrader(answers={'expect': 'a', 'grade_decimal': v}), 'int', unit, lambda o: o.config['answers'][0]['grade_decimal'])
    opt('LinearCredit.decrease_credit_after', lambda v: m.LinearCredit(decrease_credit_after=v), 'int', ge(1), cfg('decrease_credit_after'))
    opt('LinearCredit.decrease_credit_steps', lambda v: m.LinearCredit(decrease_credit_steps=v), 'int', ge(1), cfg('decrease_credit_steps'))
    opt('LinearCredit.minimum_credit', lambda v: m.LinearCredit(minimum_credit=v), 'real', unit, cfg('minimum_credit'))
    opt('LinearCredit.minimum_credit(int)', lambda v: m.LinearCredit(minimum_credit=v), 'int', unit, cfg('minimum_credit'))
    opt('GeometricCredit.factor', lambda v: m.GeometricCredit(factor=v), 'real', unit, cfg('factor'))
    opt('RandomFunction.input_dim', lambda v: m.RandomFunction(input_dim=v), 'int', ge(1), cfg('input_dim'))
    opt('RandomFunction.output_dim', lambda v: m.RandomFunction(output_dim=v), 'int', ge(1), cfg('output_dim'))
    opt('RandomFunction.num_terms', lambda v: m.RandomFunction(num_terms=v), 'int', ge(1), cfg('num_terms'))
    opt('RandomFunction.amplitude', lambda v: m.RandomFunction(amplitude=v), 'real', lambda v: v > 0, cfg('amplitude'))
    opt('RandomFunction.center', lambda v: m.RandomFunction(center=v), 'real', lambda v: True, cfg('center'))
    opt('RealVectors.shape', lambda v: m.RealVectors(shape=v), 'int', ge(1), lambda o: o.config['shape'][0])
    opt('RealMatrices.shape[1]', lambda v: m.RealMatrices(shape=(2, v)), 'int', ge(1), lambda o: o.config['shape'][1])
    opt('SquareMatrices.dimension', lambda v: m.SquareMatrices(dimension=v), 'int', ge(2), cfg('dimension'))
    opt('IdentityMatrixMultiples.dimension', lambda v: m.IdentityMatrixMultiples(dimension=v), 'int', ge(2), cfg('dimension'))
    opt('RealInterval.start', lambda v: m.RealInterval(start=v, stop=10), 'real', lambda v: True, cfg('start'))
    opt('IntegerRange.stop', lambda v: m.IntegerRange(start=-10, stop=v), 'int', lambda v: True, cfg('stop'))
    opt('MatrixEntryComparer.entry_partial_credit', lambda v: MEC(entry_partial_credit=v), 'real', unit, cfg('entry_partial_credit'))
    opt('LinearComparer.equals', lambda v: LC(equals=v), 'real', unit, cfg('equals'))
    opt('LinearComparer.proportional', lambda v: LC(proportional=v), 'real', unit, cfg('proportional'))
    opt('LinearComparer.offset', lambda v: LC(offset=v), 'real', unit, cfg('offset'))
    opt('LinearComparer.linear', lambda v: LC(linear=v), 'real', unit, cfg('linear'))
    opt('ListGrader.grouping[0]', lambda v: m.ListGrader(answers=[['a', 'b'], 'c'], subgraders=[m.ListGrader(subgraders=m.StringGrader()), m.StringGrader()], ordered=True,
                                                           grouping=[v, 1, 2]), 'int', lambda v: v == 1, lambda o: o.config['grouping'][0])
    return T


def h_numeric(E, key):
    from voluptuous import Error as Invalid
    from mitxgraders.exceptions import ConfigError
    build, kind, dom, get = TABLE()[key]
    v = E.int('v', -3, 4) if kind == 'int' else E.real('v', -3, 4)
    with vshadow():
        try:
            obj = build(v)
            err = None
        except (Invalid, ConfigError) as e:
            obj, err = None, type(e).__name__
    E.check('constructs-iff-in-documented-domain', siff(err is None, dom(v)))
    if obj is not None:
        stored = get(obj)
        E.check('stored-value-is-the-supplied-one', stored is v or near_eq(stored, v))
    return err or 'ok'


PERCENT_STRINGS = ['0%', '0.0%', ' 0 %', '5%', '0.5%', '100%', '250%', '-1%', '-0.001%', '-0%', 'abc%', '%', '5 %', '1e-3%', '5%%', '+5%', '5', '', '5 percent', '.5%', '5.%',
                   '00%', '1_0%']


def _percent_ok(text):
    """documented domain of a tolerance given as text: a non-negative number followed by a percent sign (surrounding blanks ignored)"""
    work = text.strip()
    if not work.endswith('%'):
        return False
    try:
        return float(work[:-1]) >= 0
    except ValueError:
        return False


def h_percent_strings(E, cls):
    """tolerance given as text: constructed iff it reads as a non-negative percentage (zero included); the stored value is the canonical 'p%'"""
    import mitxgraders as m
    from voluptuous import Error as Invalid
    from mitxgraders.exceptions import ConfigError
    text = E.choice('tolerance', PERCENT_STRINGS)
    kw = dict(answers={'lower': '1', 'upper': '2', 'summand': 'n', 'summation_variable': 'n'}) if cls == 'SumGrader' else dict(answers='1')
    try:
        g = getattr(m, cls)(tolerance=text, **kw)
    except (Invalid, ConfigError):
        E.check('percentage-text-accepted-iff-non-negative-percentage', not _percent_ok(text))
        return 'refused'
    E.check('percentage-text-accepted-iff-non-negative-percentage', _percent_ok(text))
    stored = g.config['tolerance']
    E.check('stored-percentage-has-the-supplied-value', isinstance(stored, str) and stored.endswith('%') and float(stored[:-1]) == float(text.strip()[:-1]))
    return 'built'


def _restricted(dom):
    return not (bool(dom(-5)) and bool(dom(5)) and bool(dom(0.5)))


def h_numeric_nan(E, key):
    """not-a-number lies in no documented range: for every real-valued option whose domain is bounded on some side, NaN is refused
    (every ordering comparison with NaN is false, so a careless range test lets it through)"""
    from voluptuous import Error as Invalid
    from mitxgraders.exceptions import ConfigError
    build, kind, dom, get = TABLE()[key]
    v = E.choice('nan', [float('nan'), -float('nan'), np.float64('nan')])
    try:
        build(v)
    except (Invalid, ConfigError) as e:
        E.check('nan-is-outside-every-bounded-domain', True)
        return type(e).__name__
    E.check('nan-is-outside-every-bounded-domain', False)
    return 'built'


def _strip(x):
    return x


def h_defaults(E, key):
    """every other option carries the same value as in the default configuration (concrete in-domain value)"""
    build, kind, dom, get = TABLE()[key]
    val = {'int': 2, 'real': 0.5}[kind]
    if key in ('NumericalGrader.samples', 'SumGrader.input_positions.lower', 'ListGrader.grouping[0]'):
        val = 1
    if key == 'NumericalGrader.failable_evals':
        val = 0
    if key.endswith('(int)'):
        val = 1
    a, b = build(val), build(val)
    E.check('construction-deterministic', a == b and a.config == b.config)
    if 'Grader' in type(a).__name__:      # the property promises the round trip for graders
        again = type(a)(copy.deepcopy(a.config))
        E.check('reconstruct-from-config-yields-equal-object', again == a)
    return 'ok'


DEFAULTS = {
    'StringGrader': dict(debug=False, suppress_warnings=False, attempt_based_credit=None, attempt_based_credit_msg=True, answers=(), wrong_msg='', case_sensitive=True,
                         strip=True, strip_all=False, clean_spaces=True, accept_any=False, accept_nonempty=False, min_length=0, min_words=0, explain_minimums='err',
                         validation_pattern=None, explain_validation='err', invalid_msg='Your input is not in the expected format'),
    'FormulaGrader': dict(debug=False, suppress_warnings=False, attempt_based_credit=None, attempt_based_credit_msg=True, answers=(), wrong_msg='', user_functions={},
                          user_constants={}, blacklist=[], whitelist=[], tolerance='0.01%', samples=5, variables=[], numbered_vars=[], sample_from={}, failable_evals=0,
                          forbidden_strings=[], forbidden_message='Invalid Input: This particular answer is forbidden', metric_suffixes=False, required_functions=[],
                          instructor_vars=[], allow_inf=False, max_array_dim=0),
    'NumericalGrader': dict(tolerance='5.0%', samples=1, variables=[], numbered_vars=[], sample_from={}, failable_evals=0),
    'MatrixGrader': dict(identity_dim=None, max_array_dim=1, negative_powers=True, shape_errors=True, suppress_matrix_messages=False,
                         answer_shape_mismatch={'is_raised': True, 'msg_detail': 'type'}, allow_inf=False, tolerance='0.01%', samples=5),
    'SingleListGrader': dict(ordered=False, length_error=False, missing_error=True, delimiter=',', partial_credit=True),
    'ListGrader': dict(ordered=False, partial_credit=True, grouping=[], answers=()),
    'LinearCredit': dict(decrease_credit_after=1, decrease_credit_steps=4, minimum_credit=0.2),
    'GeometricCredit': dict(factor=0.75),
    'RandomFunction': dict(input_dim=1, output_dim=1, num_terms=3, center=0, amplitude=10, complex=False),
    'RealInterval': dict(start=1, stop=5), 'IntegerRange': dict(start=1, stop=5),
    'RealVectors': dict(shape=(3,), norm={'start': 1, 'stop': 5}, complex=False),
    'SquareMatrices': dict(dimension=2, symmetry=None, traceless=False, determinant=None, complex=False, norm={'start': 1, 'stop': 5}, shape=(2, 2)),
    'SumGrader': dict(infty_val=1e3, infty_val_fact=80, even_odd=0, samples=2, tolerance=1e-12, input_positions={'lower': 1, 'upper': 2, 'summand': 3, 'summation_variable': 4}),
}


def h_default_table(E, cls):
    import mitxgraders as m
    mk = {'StringGrader': lambda: m.StringGrader(), 'FormulaGrader': lambda: m.FormulaGrader(), 'NumericalGrader': lambda: m.NumericalGrader(),
          'MatrixGrader': lambda: m.MatrixGrader(), 'SingleListGrader': lambda: m.SingleListGrader(subgrader=m.StringGrader()),
          'ListGrader': lambda: m.ListGrader(subgraders=m.StringGrader()), 'LinearCredit': lambda: m.LinearCredit(), 'GeometricCredit': lambda: m.GeometricCredit(),
          'RandomFunction': lambda: m.RandomFunction(), 'RealInterval': lambda: m.RealInterval(), 'IntegerRange': lambda: m.IntegerRange(),
          'RealVectors': lambda: m.RealVectors(), 'SquareMatrices': lambda: m.SquareMatrices(),
          'SumGrader': lambda: m.SumGrader(answers={'lower': '1', 'upper': '2', 'summand': 'n', 'summation_variable': 'n'})}[cls]
    o = mk()
    want = DEFAULTS[cls]
    bad = [k for k in want if k not in o.config or o.config[k] != want[k]]
    E.check('documented-defaults-present', not bad)
    if bad:
        E.note('defaults', bad)
    return bad


# ------------------------------------------------------------------------------------------------ cross-option rules
def h_white_black(E):
    import mitxgraders as m
    from mitxgraders.exceptions import ConfigError
    w, b = E.fork_bool('whitelist'), E.fork_bool('blacklist')
    kw = {}
    if w:
        kw['whitelist'] = ['sin']
    if b:
        kw['blacklist'] = ['cos']
    try:
        m.FormulaGrader(answers='1', **kw)
        err = False
    except ConfigError:
        err = True
    E.check('no-simultaneous-whitelist-and-blacklist', err == (w and b))
    return err


def h_unknown_funcs(E):
    import mitxgraders as m
    from mitxgraders.exceptions import ConfigError
    which = E.choice('list', ['whitelist', 'blacklist'])
    known = E.fork_bool('known')
    try:
        m.FormulaGrader(answers='1', **{which: ['sin' if known else 'notafunction']})
        err = False
    except ConfigError:
        err = True
    E.check('unknown-function-in-list-refused', err == (not known))
    return err


def h_list_rules(E):
    import mitxgraders as m
    from mitxgraders.exceptions import ConfigError
    from voluptuous import Error as Invalid
    ordered = E.fork_bool('ordered')
    several = E.fork_bool('several_subgraders')
    n_sub = E.fork_int('n_subgraders', 1, 3)
    sub = [m.StringGrader() for _ in range(n_sub)] if several else m.StringGrader()
    try:
        m.ListGrader(answers=['a', 'b'], subgraders=sub, ordered=ordered)
        err = False
    except (ConfigError, Invalid):
        err = True
    want_err = several and (not ordered or n_sub != 2)
    E.check('unordered-only-with-single-subgrader-and-counts-match', err == want_err)
    return err


def h_unordered_subgrader_list(E):
    """an unordered ListGrader is never built with a LIST of subgraders - whatever the number of subgraders (one included) and of answers, in every
    answers format, keyword or dictionary form"""
    import mitxgraders as m
    from mitxgraders.exceptions import ConfigError
    from voluptuous import Error as Invalid
    n_sub = E.fork_int('n_subgraders', 1, 3)
    n_ans = E.fork_int('n_answers', 1, 3)
    form = E.choice('answers_form', ['list', 'tuple-of-lists', 'two-alternative-lists'])
    as_dict = E.fork_bool('dictionary_form')
    base = ['a', 'b', 'c'][:n_ans]
    answers = {'list': list(base), 'tuple-of-lists': (list(base),), 'two-alternative-lists': (list(base), list(reversed(base)))}[form]
    cfg = dict(answers=answers, subgraders=[m.StringGrader() for _ in range(n_sub)], ordered=False)
    try:
        m.ListGrader(cfg) if as_dict else m.ListGrader(**cfg)
        err = False
    except (ConfigError, Invalid):
        err = True
    E.check('unordered-only-with-single-subgrader-and-counts-match', err)
    return err


def h_single_answer_list(E):
    import mitxgraders as m
    from mitxgraders.exceptions import ConfigError
    n = E.fork_int('n_answers', 0, 3)
    try:
        m.ListGrader(answers=['a', 'b', 'c'][:n], subgraders=m.StringGrader())
        err = False
    except ConfigError:
        err = True
    E.check('list-of-one-answer-refused', err == (n == 1))
    return err


GROUPINGS = [([1, 1, 2, 2], True), ([1, 2, 1, 2], True), ([1, 1, 1, 2], 'unordered-unequal'), ([1, 1, 3, 3], False), ([0, 0, 1, 1], False), ([2, 2, 3, 3], False),
             ([1, 1, 2], 'unordered-unequal'), ([1, 2], 'needs-list'), ([1, 1, 2, 2, 3], 'count')]


def h_grouping(E, idx):
    import mitxgraders as m
    from mitxgraders.exceptions import ConfigError
    from voluptuous import Error as Invalid
    grouping, kind = GROUPINGS[idx]
    ordered = E.fork_bool('ordered')
    inner_list = E.fork_bool('subgrader_is_listgrader')
    sub = m.ListGrader(subgraders=m.StringGrader(), ordered=True) if inner_list else m.StringGrader()
    ngroups = len(set(grouping))
    try:
        m.ListGrader(answers=[['a', 'b']] * max(ngroups, 2), subgraders=sub, ordered=ordered, grouping=grouping)
        err = False
    except (ConfigError, Invalid):
        err = True
    contiguous = set(grouping) == set(range(1, max(grouping) + 1)) and min(grouping) >= 1
    sizes = [grouping.count(k) for k in sorted(set(grouping))]
    ok = contiguous and inner_list and (ordered or len(set(sizes)) == 1)
    E.check('grouping-rules', err == (not ok))
    return err


def h_grouping_sizes(E):
    """2-4 groups whose sizes are symbolic integers in 1..4, labels in blocks or interleaved: an unordered list is constructed iff all groups have the
    same size (sizes that merely AVERAGE to the first group's size included), an ordered one always"""
    import mitxgraders as m
    from mitxgraders.exceptions import ConfigError
    from voluptuous import Error as Invalid
    k = E.fork_int('groups', 2, 4)
    sizes = [E.fork_int('size%d' % i, 1, 4) for i in range(k)]
    ordered = E.fork_bool('ordered')
    interleaved = E.fork_bool('interleaved')
    grouping = [i + 1 for i in range(k) for _ in range(sizes[i])]
    if interleaved:
        grouping = sorted(grouping, key=lambda g: (grouping.index(g) + g) % 2)      # some deterministic shuffle keeping the multiset
    sub = m.ListGrader(subgraders=m.StringGrader(), ordered=True)
    try:
        m.ListGrader(answers=[['a', 'b']] * k, subgraders=sub, ordered=ordered, grouping=grouping)
        err = False
    except (ConfigError, Invalid):
        err = True
    E.check('grouping-rules', err == (not (ordered or len(set(sizes)) == 1)))
    return err


def h_nested_delims(E):
    import mitxgraders as m
    from mitxgraders.exceptions import ConfigError
    d1 = E.choice('outer', [',', ';', '|'])
    d2 = E.choice('inner', [',', ';', '|'])
    try:
        m.SingleListGrader(subgrader=m.SingleListGrader(subgrader=m.StringGrader(), delimiter=d2), delimiter=d1)
        err = False
    except ConfigError:
        err = True
    E.check('nested-lists-need-distinct-delimiters', err == (d1 == d2))
    return err


def h_collisions(E):
    import mitxgraders as m
    from mitxgraders.exceptions import ConfigError
    var_x = E.fork_bool('variable_x')
    const_x = E.fork_bool('constant_x')
    try:
        m.FormulaGrader(answers='1', variables=['x'] if var_x else ['y'], user_constants={'x': 2.0} if const_x else {})
        err = False
    except ConfigError:
        err = True
    E.check('no-name-collisions-between-variables-and-constants', err == (var_x and const_x))
    return err


def h_override(E):
    import mitxgraders as m
    from mitxgraders.exceptions import ConfigError
    cls = E.choice('grader', ['FormulaGrader', 'NumericalGrader', 'MatrixGrader', 'SumGrader'])
    where = E.choice('where', ['variables', 'user_constants', 'user_functions', 'user_functions_class_specific', 'numbered_vars', 'none'])
    suppress = E.fork_bool('suppress_warnings')
    C = getattr(m, cls)
    # a default that exists for THIS class only: matrix functions for MatrixGrader, the infinity constant for SumGrader
    specific_fn = {'MatrixGrader': 'trace'}.get(cls)
    specific_const = {'SumGrader': 'infty'}.get(cls)
    kw = {'variables': dict(variables=['pi']), 'user_constants': dict(user_constants={specific_const or 'e': 2.0}), 'user_functions': dict(user_functions={'sin': abs}),
          'user_functions_class_specific': dict(user_functions={specific_fn or 'cos': abs}), 'numbered_vars': dict(numbered_vars=['i']), 'none': {}}[where]
    if cls == 'NumericalGrader' and where in ('variables', 'numbered_vars'):
        from symx import Abort
        raise Abort()
    base = dict(answers={'lower': '1', 'upper': '2', 'summand': 'n', 'summation_variable': 'n'}) if cls == 'SumGrader' else dict(answers='1')
    try:
        C(suppress_warnings=suppress, **base, **kw)
        err = False
    except ConfigError:
        err = True
    E.check('override-of-defaults-needs-suppress_warnings', err == (where != 'none' and not suppress))
    # names that are NOT defaults of this class can be defined freely
    try:
        C(user_functions={'trace': abs} if cls != 'MatrixGrader' else {'myf': abs}, user_constants={'infty2': 1.0}, **base)
        free = True
    except ConfigError:
        free = False
    E.check('non-default-names-are-free', free)
    return err


UNKNOWN = ['StringGrader', 'FormulaGrader', 'NumericalGrader', 'MatrixGrader', 'SingleListGrader', 'ListGrader', 'SumGrader', 'LinearCredit', 'GeometricCredit',
           'ReciprocalCredit', 'RandomFunction', 'RealInterval', 'RealVectors', 'SquareMatrices', 'ComplexRectangle']


def h_unknown_key(E, cls):
    import mitxgraders as m
    from voluptuous import Error as Invalid
    from mitxgraders.exceptions import ConfigError
    present = E.fork_bool('unknown_key_present')
    base = {'SingleListGrader': dict(subgrader=m.StringGrader()), 'ListGrader': dict(subgraders=m.StringGrader()),
            'SumGrader': dict(answers={'lower': '1', 'upper': '2', 'summand': 'n', 'summation_variable': 'n'})}.get(cls, {})
    kw = dict(base)
    if present:
        kw['not_an_option'] = 1
    try:
        getattr(m, cls)(**kw)
        err = False
    except (Invalid, ConfigError):
        err = True
    E.check('unknown-option-names-refused', err == present)
    if present:
        try:
            getattr(m, cls)(kw)
            err2 = False
        except (Invalid, ConfigError):
            err2 = True
        E.check('dict-form-equivalent', err2 == err)
    return err


ANSWERS = [
    ('StringGrader', 'cat'), ('StringGrader', {'expect': 'cat'}), ('StringGrader', ('cat', 'dog')), ('StringGrader', ({'expect': 'cat', 'grade_decimal': 0.5}, 'dog')),
    ('StringGrader', {'expect': ('cat', 'dog'), 'msg': 'm'}), ('FormulaGrader', 'x+1'), ('FormulaGrader', {'expect': 'x+1', 'ok': 'partial'}),
    ('FormulaGrader', ('x', {'expect': '2*x', 'grade_decimal': 0.25})), ('NumericalGrader', '3'), ('SingleListGrader', ['a', 'b']), ('SingleListGrader', (['a', 'b'], ['c', 'd'])),
    ('SingleListGrader', 'a, b'), ('SingleListGrader', {'expect': ['a', ('b', 'c')], 'grade_decimal': 0.5}), ('ListGrader', ['a', 'b']), ('ListGrader', (['a', 'b'], ['c', 'd'])),
]


def h_answers(E, idx):
    import mitxgraders as m
    cls, ans = ANSWERS[idx]
    extra = {'FormulaGrader': dict(variables=['x']), 'SingleListGrader': dict(subgrader=m.StringGrader()), 'ListGrader': dict(subgraders=m.StringGrader())}.get(cls, {})
    C = getattr(m, cls)
    a = C(answers=copy.deepcopy(ans), **extra)
    b = C(dict(answers=copy.deepcopy(ans), **extra))
    E.check('kwargs-and-dict-forms-equivalent', a == b)
    A = a.config['answers']
    if cls != 'ListGrader':
        E.check('answers-canonical-tuple-of-dicts', isinstance(A, tuple) and all(isinstance(x, dict) and set(x) == {'expect', 'grade_decimal', 'msg', 'ok'} and
                                                                                 isinstance(x['expect'], tuple) for x in A))
    else:
        E.check('answers-canonical-tuple-of-dicts', isinstance(A, tuple) and all(isinstance(lst, list) and all(isinstance(x, tuple) for x in lst) for lst in A))
    c = C(copy.deepcopy(a.config)) if cls in ('ListGrader', 'SingleListGrader') else C(a.config)
    E.check('reconstruct-from-config-yields-equal-object', c == a)
    return 'ok'


def h_list_lengths(E, cls, form):
    """cross-option rule: every alternative list answer has the same length - wherever the alternatives sit (a tuple of lists, a tuple-valued
    expect inside a dictionary, delimited strings, both levels at once).  The lengths are symbolic integers."""
    import mitxgraders as m
    from mitxgraders.exceptions import ConfigError
    n_entries = E.fork_int('entries', 1, 2)
    n_alts = E.fork_int('alternatives_per_entry', 1, 2)
    lens = [[E.fork_int('len_%d_%d' % (i, j), 1, 3) for j in range(n_alts)] for i in range(n_entries)]

    def item(k):
        vals = ['a', 'b', 'c'][:k]
        return ', '.join(vals) if form == 'string' else list(vals)
    entries = []
    for i in range(n_entries):
        alts = tuple(item(k) for k in lens[i])
        if form == 'plain' and n_alts == 1:
            entries.append(alts[0])
        else:
            entries.append({'expect': alts if n_alts > 1 else alts[0], 'grade_decimal': 1 if i == 0 else 0.5})
    answers = tuple(entries) if n_entries > 1 else entries[0]
    same = len({k for row in lens for k in row}) == 1
    try:
        m.SingleListGrader(answers=answers, subgrader=m.StringGrader())
    except ConfigError:
        E.check('alternative-lists-of-unequal-length-iff-ConfigError', not same)
        return 'ConfigError'
    E.check('alternative-lists-of-unequal-length-iff-ConfigError', same)
    return 'built'


KWDICT = [('MatrixGrader', dict(answers='[1,2]', entry_partial_credit=0.5), '[1,3]'), ('MatrixGrader', dict(answers='[1,2]', entry_partial_msg='some wrong'), '[1,3]'),
          ('MatrixGrader', dict(answers='[1,2]', entry_partial_credit='proportional', max_array_dim=2), '[1,3]'), ('FormulaGrader', dict(answers='x', variables=['x'], tolerance=0.1), 'x+0.05'),
          ('StringGrader', dict(answers='Cat', case_sensitive=False), 'cat'), ('NumericalGrader', dict(answers='10', tolerance='20%'), '11'),
          ('SingleListGrader', dict(answers=['a', 'b'], subgrader=None, ordered=True), 'b,a'), ('StringGrader', dict(answers=('a', 'b'), wrong_msg='no', debug=False), 'c'),
          ('IntervalGrader', dict(answers=['(', '1', '2', ']']), '(1,2]'), ('SumGrader', dict(answers={'lower': '1', 'upper': '2', 'summand': 'n', 'summation_variable': 'n'}, even_odd=1), None)]


def h_kwargs_dict(E, idx):
    """keyword-argument and dictionary forms of the same configuration give equal graders that grade alike"""
    import mitxgraders as m
    cls, cfg, inp = KWDICT[idx]
    cfg = dict(cfg)
    if cls == 'SingleListGrader':
        cfg['subgrader'] = m.StringGrader()
    C = getattr(m, cls)
    a = C(**copy.deepcopy({k: v for k, v in cfg.items() if k != 'subgrader'}), **({'subgrader': cfg['subgrader']} if 'subgrader' in cfg else {}))
    b = C(dict(copy.deepcopy({k: v for k, v in cfg.items() if k != 'subgrader'}), **({'subgrader': cfg['subgrader']} if 'subgrader' in cfg else {})))
    E.check('kwargs-and-dict-forms-equal', a == b and a.config == b.config)
    if inp is not None:
        ra, rb = a(None, inp), b(None, inp)
        E.check('kwargs-and-dict-forms-grade-alike', ra == rb)
    E.check('same-comparer-machinery', getattr(a, 'default_comparer', None).__class__ is getattr(b, 'default_comparer', None).__class__)
    return 'ok'


TYPES = [('FormulaGrader', 'samples', 2.5), ('FormulaGrader', 'samples', '3'), ('FormulaGrader', 'tolerance', '-5%'), ('FormulaGrader', 'tolerance', 'abc'),
         ('FormulaGrader', 'tolerance', None), ('FormulaGrader', 'variables', 'x'), ('FormulaGrader', 'variables', ['x', 'x']), ('FormulaGrader', 'debug', 1),
         ('StringGrader', 'min_length', 1.5), ('StringGrader', 'case_sensitive', 'yes'), ('StringGrader', 'explain_minimums', 'maybe'), ('StringGrader', 'wrong_msg', 3),
         ('LinearCredit', 'minimum_credit', '0.5'), ('LinearCredit', 'decrease_credit_after', 1.0), ('RandomFunction', 'complex', 'no'), ('RealVectors', 'shape', (2, 2)),
         ('RealVectors', 'shape', 0), ('SquareMatrices', 'symmetry', 'round'), ('SquareMatrices', 'determinant', 2), ('RealInterval', 'start', 'a'),
         ('MatrixGrader', 'entry_partial_credit', 'half'), ('FormulaGrader', 'attempt_based_credit', 3), ('FormulaGrader', 'whitelist', [None, 'sin']),
         ('StringGrader', 'answers', 3), ('StringGrader', 'answers', {'grade_decimal': 1}), ('StringGrader', 'answers', {'expect': 'a', 'ok': 'maybe'})]


POSITIONAL = [('RealInterval', [1, 2, 3]), ('RealInterval', [1]), ('RealInterval', []), ('IntegerRange', [1, 2, 3, 4]), ('IntegerRange', [1.5, 2]),
              ('ComplexRectangle', {'re': [1, 2, 3]}), ('ComplexSector', {'argument': [0, 1, 2]}), ('RealVectors', {'norm': [1, 2, 3]}), ('RealVectors', {'shape': [2, 2]}),
              ('DiscreteSet', ()), ('SpecificFunctions', []), ('FormulaGrader', {'answers': '1', 'variables': ['x'], 'sample_from': {'x': [1, 2, 3]}}),
              ('FormulaGrader', {'answers': '1', 'variables': ['x'], 'sample_from': {'y': [1, 2]}}), ('IdentityMatrixMultiples', {'sampler': [1, 2, 3]})]


def h_positional(E, idx):
    """list / positional configuration forms of the wrong length or shape are refused"""
    import mitxgraders as m
    from voluptuous import Error as VError
    from mitxgraders.exceptions import ConfigError
    cls, cfg = POSITIONAL[idx]
    try:
        getattr(m, cls)(cfg)
        E.check('out-of-domain-value-raises-and-no-object-results', False)
        return 'constructed'
    except (VError, ConfigError) as e:
        E.check('out-of-domain-value-raises-and-no-object-results', True)
        return type(e).__name__


def h_types(E, idx):
    import mitxgraders as m
    from voluptuous import Error as Invalid
    from mitxgraders.exceptions import ConfigError
    cls, key, val = TYPES[idx]
    kw = {'FormulaGrader': dict(answers='1'), 'MatrixGrader': dict(answers='1')}.get(cls, {})
    kw = dict(kw)
    kw[key] = val
    try:
        o = getattr(m, cls)(**kw)
        E.check('out-of-domain-value-raises-and-no-object-results', False)
        return 'constructed'
    except (Invalid, ConfigError) as e:
        E.check('out-of-domain-value-raises-and-no-object-results', True)
        return type(e).__name__


def harnesses(tier):
    hs = []

    def add(fn, base, params, bounds, **kw):
        hs.append(Harness(pname(base, **params), fn, tuple(params.values()), FUNCS, bounds, STUBS, **kw))
    for key in TABLE():
        add(h_numeric, 'numeric', dict(opt=key), 'any value in [-3,4]')
        add(h_defaults, 'roundtrip', dict(opt=key), 'in-domain value')
    for cls in DEFAULTS:
        add(h_default_table, 'defaults', dict(cls=cls), 'default configuration')
    add(h_white_black, 'whitelist_blacklist', {}, 'presence flags')
    add(h_unknown_funcs, 'unknown_function_in_lists', {}, 'presence flags')
    add(h_list_rules, 'list_rules', {}, 'presence flags, 1-3 subgraders')
    add(h_single_answer_list, 'single_answer_list', {}, '0-3 answers')
    for i in range(len(GROUPINGS)):
        add(h_grouping, 'grouping', dict(i=i), str(GROUPINGS[i][0]))
    add(h_unordered_subgrader_list, 'unordered_subgrader_list', {}, '1-3 subgraders in a list x 1-3 answers x 3 answer formats x keyword/dictionary form', validate=False)
    add(h_grouping_sizes, 'grouping_sizes', {}, '2-4 groups, sizes 1..4 as symbolic integers, ordered/unordered, blocks/interleaved', validate=False)
    add(h_nested_delims, 'nested_delimiters', {}, '3x3 delimiters')
    add(h_collisions, 'collisions', {}, 'presence flags')
    add(h_override, 'override', {}, 'presence flags')
    for cls in UNKNOWN:
        add(h_unknown_key, 'unknown_key', dict(cls=cls), 'presence flag')
    for key, (build, kind, dom, get) in TABLE().items():
        if kind == 'real' and _restricted(dom):
            add(h_numeric_nan, 'numeric_nan', dict(option=key), 'NaN as python float and numpy float')
    import vchecks.c01 as c01
    for cls in ('StringGrader', 'FormulaGrader'):
        for pinned in ('absent', 'computed', True, False, 'partial'):
            add(c01.h_pinned_ok, 'answer_ok_normalised', dict(cls=cls, pinned=pinned), 'canonical ok of a stored answer: explicit ok kept only at full credit; credit any real in [0,1]')
    for cls in ('FormulaGrader', 'NumericalGrader', 'MatrixGrader', 'SumGrader'):
        add(h_percent_strings, 'percent_strings', dict(cls=cls), '23 texts incl. zero, negative, malformed, padded', validate=False)
    for form in ('list', 'string', 'plain'):
        add(h_list_lengths, 'list_lengths', dict(cls='SingleListGrader', form=form), '1-2 answer entries x 1-2 alternatives each, list lengths 1..3')
    for i in range(len(ANSWERS)):
        add(h_answers, 'answers', dict(i=i), '%s %r' % ANSWERS[i])
    for i in range(len(KWDICT)):
        add(h_kwargs_dict, 'kwargs_dict', dict(i=i), '%s %r' % (KWDICT[i][0], sorted(KWDICT[i][1])), validate=False)
    for i in range(len(POSITIONAL)):
        add(h_positional, 'positional', dict(i=i), '%s(%r)' % POSITIONAL[i], validate=False)
    for i in range(len(TYPES)):
        add(h_types, 'types', dict(i=i), '%s.%s=%r' % TYPES[i])
    return hs
