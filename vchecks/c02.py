"""C02 - grading failures surface only as library errors with student-safe messages."""
import inspect

import numpy as np
import z3

from symx import Harness, pname, sand, sor, simplies, siff, snot, near_eq, SymBool, Unsupported
from symx.stubs import shadow, sym_str, make_table_grader
from symx.text import SymStr, SymChar, K, fresh_str, any_unicode, alphabet
from symx import ppshim, rx

PROPERTY = 'C02'
EXPLANATION = ('(1) The real AbstractGrader.__call__ wraps a harness grader whose check raises an exception chosen by a symbolic selector from a catalogue '
               'built by introspection (every class of the library\'s exception modules plus the builtin / numpy / voluptuous failures internal code '
               'can raise), with debug and input shape symbolic: what escapes is decided against the documented mapping. (2) ensure_text_inputs in '
               'its three variants on a symbolic choice of input-object shapes. (3) The evaluator on symbolic reals (unrestricted, zero included): '
               'every path ends in a value or an MITxError with the recast class. (4) BracketValidator.validate on EVERY Unicode string up to the '
               'bound against an independent stack oracle. (5) The real parser on every Unicode string up to the bound: the only outcomes are a '
               'MathExpression, UnableToParse or UnbalancedBrackets, within a per-path step budget (termination). (6) SingleListGrader on symbolic '
               'strings over {delimiter, space, letters}: blank items / wrong counts raise MissingInput exactly as configured.'
               " Submitted texts that would disturb a message template (braces, percent directives, backslashes) are a listed catalogue, both for the generic error and for anticipated errors; list graders are called with every box count 1-6 (C01's harness).")
ASSUMPTIONS = ['the exception catalogue is finite (introspected + listed)', 'lone surrogates excluded from the alphabet']
BOUNDS = {'quick': 'brackets: all strings of length <= 6; parser: all strings of length <= 3; list failures: length <= 5 over a 4-character alphabet',
          'thorough': 'brackets length <= 8 (path budget), parser length <= 4, list failures length <= 6'}
OUTSIDE = ['which exception numpy/LAPACK raise at poles/overflow (C boundary)', 'nesting deeper than the length bound (observed: RecursionError at depth ~50 becomes the generic student-facing error)',
           'full grader calls on symbolic formula strings beyond parsing (evaluation of symbolic numerals is not modelled)']
DEADLINE = {'quick': 600, 'thorough': 2400}
FUNCS = ['AbstractGrader.__call__ (error wrapper)', 'AbstractGrader.ensure_text_inputs', 'ItemGrader.ensure_text_inputs', 'ListGrader.ensure_text_inputs', 'MathExpression.eval (error recasting)',
         'MathExpression.eval_function', 'BracketValidator.validate', 'MathParser.parse', 'SingleListGrader.check_response', 'mitxgraders.exceptions.*', 'helpers.calc.exceptions.*']
STUBS = ['harness grader raising the selected exception', 'pyparsing leaf shims', 'stringgrader.str/re shims']


def catalogue():
    import mitxgraders.exceptions as E1
    import mitxgraders.helpers.calc.exceptions as E2
    import voluptuous
    lib = []
    for mod in (E1, E2):
        for name, obj in sorted(vars(mod).items()):
            if inspect.isclass(obj) and issubclass(obj, Exception) and obj.__module__ == mod.__name__:
                lib.append(obj)
    from mitxgraders.formulagrader.integralgrader import IntegrationError, SummationError
    lib += [IntegrationError, SummationError]
    other = [ValueError, TypeError, KeyError, IndexError, ZeroDivisionError, OverflowError, RecursionError, AttributeError, ArithmeticError, FloatingPointError,
             AssertionError, NotImplementedError, RuntimeError, UnicodeError, LookupError, MemoryError, StopIteration, voluptuous.Invalid, voluptuous.MultipleInvalid,
             np.linalg.LinAlgError, Exception]
    return lib, other


MSG = 'line one\nline <two>\n\nend'


# submitted texts that would disturb a careless message template: quotes, markup, format fields, percent directives, backslashes
TEXTS = ['the <input>', "in'2", 'x_{1}', '{0}', '{}', '{', '}', '{input}', '{0!r:>{1}}', '%s %d', 'a\\b', '']


def h_wrapper(E):
    from mitxgraders.baseclasses import ItemGrader
    from mitxgraders import ListGrader, StringGrader
    from mitxgraders.exceptions import MITxError, StudentFacingError, ConfigError
    lib, other = catalogue()
    allx = lib + other
    k = E.fork_int('exception', 0, len(allx) - 1)
    exc_cls = allx[k]
    debug = E.fork_bool('debug')
    as_list = E.fork_bool('list_input')
    with_msg = E.fork_bool('multi_line_message')
    text = E.choice('submitted_text', TEXTS)

    def boom(*a, **kw):
        raise exc_cls(MSG if with_msg else 'plain')

    class Boom(ItemGrader):
        def check_response(self, answer, student_input, **kwargs):
            boom()
    if as_list:
        g = ListGrader(answers=['a', 'b'], subgraders=Boom(), debug=debug)
        inp = ['in"1', text]
    else:
        g = Boom(answers='a', debug=debug)
        inp = text
    try:
        g(None, inp)
        E.check('exception-propagates', False)
        return 'returned'
    except Exception as e:   # noqa - the escaping exception IS the observable
        got = e
    if debug:
        E.check('debug-on-reraises-original', type(got) is exc_cls)
        return 'debug'
    E.check('only-library-errors-escape', isinstance(got, MITxError))
    if issubclass(exc_cls, MITxError):
        E.check('library-error-keeps-class', type(got) is exc_cls)
        E.check('message-kept-with-br', str(got) == (MSG if with_msg else 'plain').replace('\n', '<br/>'))
    else:
        E.check('internal-failure-becomes-generic-student-facing-error', type(got) is StudentFacingError)
        want = ("Invalid Input: Could not check inputs 'in\"1', '" + text + "'" if as_list else "Invalid Input: Could not check input '" + text + "'")
        E.check('generic-message-names-submission', str(got) == want)
    return type(got).__name__


SHAPES = ['str', 'empty-str', 'list-of-str', 'empty-list', 'list-with-int', 'list-with-none', 'nested-list', 'tuple', 'int', 'none', 'dict', 'bytes', 'float', 'list-with-bytes']


def _shape(name):
    return {'str': 'abc', 'empty-str': '', 'list-of-str': ['a', 'b', ''], 'empty-list': [], 'list-with-int': ['a', 3, 'b'], 'list-with-none': [None, 'a'],
            'nested-list': ['a', ['b']], 'tuple': ('a', 'b'), 'int': 3, 'none': None, 'dict': {'a': 1}, 'bytes': b'abc', 'float': 1.5, 'list-with-bytes': ['a', b'b']}[name]


def h_text_inputs(E):
    from mitxgraders.baseclasses import AbstractGrader, ItemGrader
    from mitxgraders import ListGrader
    from mitxgraders.exceptions import ConfigError
    variant = E.choice('variant', ['abstract', 'item', 'list'])
    name = E.choice('shape', SHAPES)
    obj = _shape(name)
    fn = {'abstract': AbstractGrader.ensure_text_inputs, 'item': ItemGrader.ensure_text_inputs, 'list': ListGrader.ensure_text_inputs}[variant]
    is_text = name in ('str', 'empty-str')
    is_text_list = name in ('list-of-str', 'empty-list')
    accepted = {'abstract': is_text or is_text_list, 'item': is_text, 'list': is_text_list}[variant]
    try:
        out = fn(obj)
        err = None
    except ConfigError as e:
        out, err = None, str(e)
    E.check('non-text-or-wrong-nesting-refused-with-ConfigError', (err is None) == accepted)
    if err is None:
        E.check('accepted-input-returned-unchanged', out == obj and type(out) is type(obj))
    return [variant, name, err is None]


def h_text_inputs_call(E):
    """through real grader calls: what escapes for a wrong input object is a ConfigError, also with debug off"""
    from mitxgraders import StringGrader, ListGrader, SingleListGrader, FormulaGrader
    from mitxgraders.exceptions import ConfigError
    which = E.choice('grader', ['string', 'formula', 'singlelist', 'list'])
    name = E.choice('shape', SHAPES)
    obj = _shape(name)
    configured = E.fork_bool('answers_configured') or which == 'list'
    debug = E.fork_bool('debug')
    if configured:
        g = {'string': lambda: StringGrader(answers='abc', debug=debug), 'formula': lambda: FormulaGrader(answers='1', debug=debug),
             'singlelist': lambda: SingleListGrader(answers=['a', 'b'], subgrader=StringGrader(), debug=debug),
             'list': lambda: ListGrader(answers=['a', 'b', 'c'], subgraders=StringGrader(), debug=debug)}[which]()
        expect = None
    else:
        # answers inferred from the expect argument of the call (the edX "expect" attribute)
        g = {'string': lambda: StringGrader(debug=debug), 'formula': lambda: FormulaGrader(debug=debug),
             'singlelist': lambda: SingleListGrader(subgrader=StringGrader(), debug=debug)}[which]()
        expect = {'string': 'abc', 'formula': '1', 'singlelist': 'a, b'}[which]
    wants_list = which == 'list'
    ok_shape = (name in ('list-of-str',)) if wants_list else (name in ('str', 'empty-str'))
    from mitxgraders.exceptions import StudentFacingError
    try:
        r = g(expect, obj)
        err = None
    except ConfigError as e:
        r, err = None, 'ConfigError'
    except StudentFacingError as e:
        r, err = None, 'StudentFacingError'
    if name == 'empty-list' and wants_list:
        E.check('wrong-count-is-ConfigError', err == 'ConfigError')
        return 'count'
    E.check('wrong-input-object-refused-with-ConfigError', (err == 'ConfigError') == (not ok_shape))
    return [which, name, err]


def h_arith(E, expr):
    """unrestricted symbolic reals (zero included) through the evaluator: value or MITxError, recast classes"""
    from mitxgraders.helpers.calc.expressions import evaluator, DEFAULT_FUNCTIONS, DEFAULT_SUFFIXES
    from mitxgraders.exceptions import MITxError
    from mitxgraders.helpers.calc.exceptions import CalcZeroDivisionError, CalcOverflowError, CalcError
    env = {n: E.real(n, -2, 2) for n in 'abc'}
    try:
        v, _ = evaluator(expr, env, DEFAULT_FUNCTIONS, DEFAULT_SUFFIXES)
        err = None
    except MITxError as e:
        v, err = None, e
    if err is not None:
        E.check('arithmetic-failure-is-student-facing-calc-error', isinstance(err, CalcError))
        E.check('division-by-zero-recast', isinstance(err, CalcZeroDivisionError))
        return type(err).__name__
    E.check('value-returned', v is not None)
    return 'value'


ANTICIPATED = ['A^i', 'A^(2*i)', 'A^0.5', 'A^-1', 'A^[1,2]', 'A^A', '2^A', 'v^2', 'A+v', 'A+1', 'v/A', 'A/v', 'v*v*v', 'A*v*v*v', 'sin(A)', 'abs(A)', 'trace(v)', 'cross(v,v)', 'A^1.5',
               'det(v)', 'norm(A,v)', 'min(A,1)', 'arctan2(0,0)', '1/0', 'ln(0)', 'fact(-1)' if False else 'A*[1,2,3]', '[1,2]+[1,2,3]', 'A^(1/0)', 'tan(pi/2)^-1*0+1/0', '[[1,2],[3]]', '[1,2',
               # anticipated problems in submissions that contain braces (tensor-index names) - nothing may treat the submission as a format template
               '(x_{1}+2]', '[1,2)+x_{1}', 'x_{1}+2)', '(x_{1}', 'x_{1}+zz_{0}', 'gg_{1}(x_{1})', 'x_{1}/0', 'x_{1}^[1,2]', 'A+x_{1}', '{x_{1}}', 'x_{1}_{2}', 'x_{1}+%s', 'sin(x_{1},2)',
               # submissions whose VALUE is a scalar of every carrier type where a matrix is expected (shape mismatch is an anticipated problem)
               'kronecker(1,1)', '0||3', '-(1||0)', '2', 'c', 'c+i', 'kronecker(1,2)+c']


# anticipated problems whose documented class and wording are fixed (shape and argument-count diagnostics name what was received and what was expected)
SPECIFIC = {'det(2)': ('ArgumentShapeError', 'received a scalar, expected a square matrix'), 'trace(1+1)': ('ArgumentShapeError', 'received a scalar, expected a square matrix'),
            'det(v)': ('ArgumentShapeError', 'received a vector of length 2, expected a square matrix'), 'trace(v)': ('ArgumentShapeError', 'received a vector of length 2'),
            'det([[1,2,3],[4,5,6]])': ('ArgumentShapeError', 'received a matrix of shape (rows: 2, cols: 3)'), 'cross(2,v)': ('ArgumentShapeError', 'received a scalar, expected a vector of length 3'),
            'cross(v,v)': ('ArgumentShapeError', 'received a vector of length 2, expected a vector of length 3'), 'sin(v)': ('ArgumentShapeError', 'received a vector of length 2, expected a scalar'),
            'min(v,1)': ('ArgumentShapeError', 'received a vector of length 2, expected a scalar'), 'abs(A)': ('FunctionEvalError', 'try norm(...) instead'),
            'A^0.5': ('MathArrayError', 'non-integer powers'), 'A+1': ('MathArrayShapeError', 'Cannot add/subtract scalars to a matrix'),
            'v*v*v': ('CalcError', 'three or more vectors is ambiguous'), 'sin(1,2)': ('ArgumentError', 'Expected 1 inputs, but received 2'),
            'kronecker(1)': ('ArgumentError', 'Expected 2 inputs, but received 1'), '1e200*i*1e200+A': ('CalcOverflowError', 'overflow'), 'A*0+[[1e200*i*1e200,1],[1,1]]': ('CalcOverflowError', 'overflow'),
            '1e200*1e200+A': ('CalcOverflowError', 'overflow'), 'A*1e200*1e200': ('CalcOverflowError', 'overflow'), '(1e200+i)*1e200+A': ('CalcOverflowError', 'overflow'), 'norm(2)': ('InputTypeError', 'Expected answer to be a matrix, but input is a scalar')}


def h_specific(E, expr):
    """anticipated problems keep their SPECIFIC class and wording (not merely some student-facing error)"""
    from mitxgraders import MatrixGrader
    from mitxgraders.exceptions import MITxError
    from mitxgraders.helpers.calc.math_array import MathArray
    c = E.real('c', 1, 2)
    g = MatrixGrader(answers='A*c', user_constants={'c': c, 'A': MathArray([[1.0, 2.0], [3.0, 5.0]]), 'v': MathArray([1.0, 2.0])}, samples=1, max_array_dim=2)
    cls, fragment = SPECIFIC[expr]
    try:
        g(None, expr)
        E.check('anticipated-problem-keeps-specific-class-and-message', False)
        return 'graded'
    except MITxError as e:
        E.check('anticipated-problem-keeps-specific-class-and-message', type(e).__name__ == cls and fragment in str(e))
        return type(e).__name__


BLANK_ITEMS = ['', ' ', '\t', '\u00a0', '\u3000', ' \t ', '\n', '\x0b', '\u2003']


def h_blank_items(E, delim):
    """a list item made of whitespace only - any whitespace str.strip() removes, not just the space bar - is a blank item: MissingInput when
    missing_error is on (the default), graded as an item when it is off"""
    from mitxgraders import SingleListGrader, StringGrader
    from mitxgraders.exceptions import MissingInput, MITxError
    blank = E.choice('blank', BLANK_ITEMS)
    pos = E.fork_int('position', 0, 2)
    items = ['a', 'b', 'c']
    items[pos] = blank
    text = delim.join(items)
    g = SingleListGrader(answers=['a', 'b', 'c'], subgrader=StringGrader(), delimiter=delim)
    try:
        g(None, text)
        E.check('blank-item-raises-MissingInput', False)
    except MissingInput:
        E.check('blank-item-raises-MissingInput', True)
    r = SingleListGrader(answers=['a', 'b', 'c'], subgrader=StringGrader(), delimiter=delim, missing_error=False)(None, text)
    E.check('blank-item-graded-when-missing_error-off', r['ok'] == 'partial')
    return 'ok'


def h_scope_sequence(E):
    """the same text graded first by a grader that knows a name (user function, matrix function, metric suffix) and then by one that does not: the second
    call reports the specific undefined-name error it would report in a fresh process - not the generic 'Could not check input'"""
    import mitxgraders as m
    import mitxgraders.helpers.calc.expressions as X
    from mitxgraders.exceptions import MITxError
    what = E.choice('name_kind', ['user-function', 'matrix-function', 'metric-suffix', 'user-constant-vs-none'])
    c = E.real('c', 1, 2)
    if what == 'user-function':
        text, knows, not_ = 'x+ff(1)', m.FormulaGrader(answers='x+2', variables=['x'], user_functions={'ff': lambda t: t + 1}), m.FormulaGrader(answers='x+2', variables=['x'])
    elif what == 'matrix-function':
        text, knows, not_ = 'x+trace([[1,0],[0,1]])', m.MatrixGrader(answers='x+2', variables=['x'], max_array_dim=2), m.FormulaGrader(answers='x+2', variables=['x'], max_array_dim=2)
    elif what == 'metric-suffix':
        text, knows, not_ = 'x+2k', m.FormulaGrader(answers='x+2000', variables=['x'], metric_suffixes=True), m.FormulaGrader(answers='x+2000', variables=['x'])
    else:
        text, knows, not_ = 'x+cc', m.FormulaGrader(answers='x+cc', variables=['x'], user_constants={'cc': c}), m.FormulaGrader(answers='x+1', variables=['x'])

    def outcome(g):
        try:
            return ('graded', str(g(None, text)['ok']))
        except MITxError as e:
            return ('error', type(e).__name__, str(e).startswith('Invalid Input: Could not check input'))
    X.PARSER.cache = {}
    fresh = outcome(not_)
    X.PARSER.cache = {}
    first = outcome(knows)
    E.check('knowing-grader-grades', first == ('graded', 'True'))
    second = outcome(not_)
    E.check('anticipated-problem-keeps-specific-class-and-message', second == fresh and second[0] == 'error' and second[2] is False)
    third = outcome(knows)
    E.check('knowing-grader-grades', third == ('graded', 'True'))
    return second[1]


def h_anticipated(E, idx, negative_powers):
    """anticipated evaluation problems keep a SPECIFIC student-facing class and message - never the generic 'Could not check input'"""
    from mitxgraders import MatrixGrader
    from mitxgraders.exceptions import StudentFacingError, ConfigError
    from mitxgraders.helpers.calc.exceptions import CalcError
    expr = ANTICIPATED[idx]
    c = E.real('c', 1, 2)
    g = MatrixGrader(answers='A*c', user_constants={'c': c}, variables=[], samples=1, max_array_dim=2, negative_powers=negative_powers,
                     sample_from={}, user_functions={})
    # A and v are concrete matrix / vector constants of the problem
    from mitxgraders.helpers.calc.math_array import MathArray
    g = MatrixGrader(answers='A*c', user_constants={'c': c, 'A': MathArray([[1.0, 2.0], [3.0, 5.0]]), 'v': MathArray([1.0, 2.0]), 'x_{1}': 2.0}, samples=1, max_array_dim=2,
                     negative_powers=negative_powers)
    try:
        r = g(None, expr)
        E.check('graded-without-error', r['ok'] in (True, False, 'partial'))
        return 'graded'
    except ConfigError as e:
        E.check('anticipated-problem-is-not-a-config-error', False)
        return 'ConfigError'
    except StudentFacingError as e:
        E.check('anticipated-problem-keeps-specific-class-and-message', isinstance(e, CalcError) or not str(e).startswith('Invalid Input: Could not check input'))
        return type(e).__name__


ARITH = ['a/b', 'a/(b-c)', '1/a/b', 'a||b', '0||a', 'a^-1', 'a^-2/b', '(a-b)^-1', 'a/b/c', 'a||b||c', 'csc(a)+1/b', 'a/(b*c)', '(a+b)/(a+b)', 'a/(b||c)', '1/(a||b)']
BR_OPEN = '([{'
BR_CLOSE = ')]}'


def _balanced_oracle(chars):
    """independent stack oracle over SymChars: True iff balanced"""
    stack = []
    for c in chars:
        for o, cl in zip(BR_OPEN, BR_CLOSE):
            if bool(c == o):
                stack.append(cl)
                break
            if bool(c == cl):
                if not stack or stack.pop() != cl:
                    return False
                break
    return not stack


def h_brackets(E, N):
    from mitxgraders.helpers.calc.expressions import BracketValidator
    from mitxgraders.helpers.calc.exceptions import UnbalancedBrackets
    s = fresh_str(E, 's', N, any_unicode)
    try:
        out = BracketValidator.validate(s)
        err = None
    except UnbalancedBrackets as e:
        out, err = None, e
    chars = s.ch if isinstance(s, SymStr) else [K(c) for c in s]
    bal = _balanced_oracle(chars)
    E.check('returns-argument-iff-balanced', (err is None) == bal)
    if err is None:
        E.check('returns-its-argument', out is s)
    return bal


def h_parse_total(E, N):
    import mitxgraders.helpers.calc.expressions as X
    from mitxgraders.helpers.calc.exceptions import UnableToParse, UnbalancedBrackets
    P = _parser()
    P.cache = {}
    s = fresh_str(E, 's', N, any_unicode)
    with ppshim.installed(P.grammar):
        try:
            r = P.parse(s)
            out = 'MathExpression'
            E.check('parse-returns-expression', isinstance(r, X.MathExpression))
        except (UnableToParse, UnbalancedBrackets) as e:
            out = type(e).__name__
            E.check('parse-error-is-student-facing', True)
    return out


_P = {}


def _parser():
    import mitxgraders.helpers.calc.expressions as X
    if 'p' not in _P:
        _P['p'] = X.MathParser()
    return _P['p']


def h_list_failures(E, N, length_error, missing_error, delim):
    from mitxgraders import SingleListGrader, StringGrader
    from mitxgraders.exceptions import MissingInput
    import mitxgraders.stringgrader as SG
    s = fresh_str(E, 's', N, alphabet(delim[0] + ' ab' + (delim[1:] if len(delim) > 1 else '')))
    with shadow(SG, re=rx.ReShim(), str=sym_str):
        g = SingleListGrader(answers=['a', 'b'], subgrader=StringGrader(), length_error=length_error, missing_error=missing_error, delimiter=delim)
        try:
            r = g(None, s)
            err = None
        except MissingInput as e:
            r, err = None, str(e)
    chars = s.ch if isinstance(s, SymStr) else [K(c) for c in s]
    # independent item splitter
    items, cur, i = [], [], 0
    d = [K(c) for c in delim]
    while i < len(chars):
        if i + len(d) <= len(chars) and all(bool(chars[i + k] == d[k]) for k in range(len(d))):
            items.append(cur)
            cur = []
            i += len(d)
        else:
            cur.append(chars[i])
            i += 1
    items.append(cur)
    blank = any(all(bool(c.isspace()) for c in it) for it in items)
    wrong_count = len(items) != 2
    should = (length_error and wrong_count) or (missing_error and blank)
    E.check('MissingInput-iff-configured-and-applicable', (err is not None) == should)
    if err is not None:
        E.check('length-error-takes-precedence', err.startswith('List length error') == (length_error and wrong_count))
    else:
        E.check('graded-result-wellformed', set(r) == {'ok', 'grade_decimal', 'msg'} and 0 <= r['grade_decimal'] <= 1)
    return [len(items), blank, err is not None]


def selftest():
    from symx import text
    text.selftest(rounds=25)
    ppshim.selftest()


def harnesses(tier):
    hs = []
    T = tier == 'thorough'

    def add(fn, base, params, bounds, **kw):
        hs.append(Harness(pname(base, **params), fn, tuple(params.values()), FUNCS, bounds, STUBS, **kw))
    for delim in (',', ';'):
        add(h_blank_items, 'blank_items', dict(delim=delim), '9 whitespace-only items x 3 positions', validate=False)
    add(h_scope_sequence, 'scope_sequence', {}, '4 kinds of names known to one grader and not to the next; symbolic constant')
    for expr in SPECIFIC:
        add(h_specific, 'specific', dict(expr=expr), 'symbolic constant')
    import vchecks.c01 as c01
    for kind in c01.LIST_LENGTH_KINDS:
        for n_stu in range(1, 7):
            add(c01.h_list_length, 'list_box_count', dict(kind=kind, n_boxes=n_stu), 'any number of boxes handed to flat / grouped / nested list graders: a result or a library error, nothing else escapes',
                max_paths=None if T else 40)
    add(h_wrapper, 'wrapper', {}, 'every catalogue exception x debug x single/list input x message shape', validate=False)
    add(h_text_inputs, 'text_inputs', {}, '3 variants x 14 input-object shapes', validate=False)
    add(h_text_inputs_call, 'text_inputs_call', {}, '4 graders x configured/inferred answers x debug x 14 input-object shapes', validate=False)
    for i in range(len(ANTICIPATED)):
        for npow in (True, False):
            add(h_anticipated, 'anticipated', dict(i=i, negative_powers=npow), repr(ANTICIPATED[i]), validate=False)
    for ex in ARITH:
        add(h_arith, 'arith', dict(expr=ex), 'a,b,c any reals in [-2,2]')
    add(h_brackets, 'brackets', dict(N=8 if T else 6), 'all Unicode strings up to that length', max_paths=300000 if T else None)
    add(h_parse_total, 'parse_total', dict(N=4 if T else 3), 'all Unicode strings up to that length', max_paths=200000 if T else None)
    for le in (True, False):
        for me in (True, False):
            add(h_list_failures, 'list_failures', dict(N=6 if T else 5, length_error=le, missing_error=me, delim=','), 'all strings over {",", " ", a, b}', max_paths=100000)
    add(h_list_failures, 'list_failures', dict(N=5, length_error=False, missing_error=True, delim='--'), 'all strings over {"-", " ", a, b}', max_paths=100000)
    return hs
