"""C15 - built-in functions and constants agree with their mathematical definitions."""
import cmath
import math

import numpy as np
import z3

from symx import Harness, pname, sand, sor, simplies, siff, near_le, near_eq, snot, sif, smax, smin, is_sym, SymReal, uf, lift
from symx.stubs import shadow, NpObjProxy

PROPERTY = 'C15'
EXPLANATION = ('The decorated entries of the default function tables are called through the real evaluator with a z3 real argument. Primitive numpy '
               'ufuncs (sin, cos, exp, arctan, ...) are uninterpreted functions; z3 decides that every DERIVED function (sec, csc, cot, sech, csch, coth, '
               'arcsec, arccsc, arccot, arcsech, arccsch, arccoth) equals its defining expression over the primitives for all arguments, raises a '
               'student-facing error at zero denominators, and satisfies f(f_inverse(x)) = x under explicitly listed axioms (no branch convention '
               'is imposed). arctan2 argument order, kronecker, min/max (2-4 args), re/im/conj on reals and cross/trans/trace/norm/abs on arrays of '
               'symbolic entries are decided against index-loop oracles. A concrete companion grid compares every table entry (incl. complex points) with '
               'Python\'s math/cmath and checks arity/shape errors - that part is plain evaluation, stated as such.'
               ' Concrete companions: every function of the MatrixGrader namespace x 9 argument shapes (domain table), complex arguments to real-only functions, and the value of every element-wise function under 7 numeric carrier types of the same argument.')
ASSUMPTIONS = ['primitive ufunc VALUES come from numpy C code and are outside the symbolic claim; they are sampled on a concrete grid only',
               'axioms used are listed in the evidence (axioms field)']
BOUNDS = {'quick': 'one symbolic real argument per function (any real / any real in the stated domain); arrays 2x2, 3x3, vectors of length 3; '
                   'concrete grid of 14 real and 12 complex points per function', 'thorough': 'same plus min/max with 5 arguments and 4x4 trace/transposes'}
OUTSIDE = ['numeric values and complex continuation of numpy ufuncs (grid-sampled only)', 'det (LAPACK)', 'factorial (scipy absent)', 'FP-error to exception mapping inside numpy']
DEADLINE = {'quick': 600, 'thorough': 900}
FUNCS = ['mathfuncs.sec/csc/cot/sech/csch/coth/arcsec/arccsc/arccot/arcsech/arccsch/arccoth', 'mathfuncs.arctan2', 'mathfuncs.kronecker', 'mathfuncs.real/imag',
         'mathfuncs.cross', 'mathfuncs.array_abs', 'SpecifyDomain decorators (validate_args)', 'MathExpression.eval_function/validate_function_call',
         'expressions.evaluator', 'DEFAULT_FUNCTIONS / ARRAY_ONLY_FUNCTIONS / DEFAULT_VARIABLES tables']
STUBS = ['numpy ufuncs on symbolic scalars -> uninterpreted functions', 'expressions.np proxy (object arrays)']
PI = math.pi


def U(name, x):
    if is_sym(x):
        return SymReal(uf(name)(lift(x)))
    return getattr(np, name)(x)


DEFS = {
    'sec': lambda x: 1 / U('cos', x), 'csc': lambda x: 1 / U('sin', x), 'cot': lambda x: 1 / U('tan', x),
    'sech': lambda x: 1 / U('cosh', x), 'csch': lambda x: 1 / U('sinh', x), 'coth': lambda x: 1 / U('tanh', x),
    'arcsec': lambda x: U('arccos', 1 / x), 'arccsc': lambda x: U('arcsin', 1 / x), 'arcsech': lambda x: U('arccosh', 1 / x),
    'arccsch': lambda x: U('arcsinh', 1 / x), 'arccoth': lambda x: U('arctanh', 1 / x),
    'arccot': lambda x: sif(x < 0, -PI / 2 - U('arctan', x), PI / 2 - U('arctan', x)),
}
DOMAIN = {'arcsec': 'abs>=1', 'arccsc': 'abs>=1', 'arcsech': '(0,1]', 'arccoth': 'abs>1'}


def _arg(E, name):
    d = DOMAIN.get(name)
    if d == 'abs>=1':
        x = E.real('x', -6, 6)
        if E.mode == 'sym':
            E.assume(sor(x >= 1, x <= -1))
        elif abs(x) < 1:
            from symx import Abort
            raise Abort()
        return x
    if d == 'abs>1':
        x = E.real('x', -6, 6)
        if E.mode == 'sym':
            E.assume(sor(x > 1, x < -1))
        elif abs(x) <= 1:
            from symx import Abort
            raise Abort()
        return x
    if d == '(0,1]':
        return E.real('x', 0, 1, lo_open=True)
    return E.real('x', -6, 6)


def h_derived(E, name):
    from mitxgraders.helpers.calc.expressions import evaluator, DEFAULT_FUNCTIONS, DEFAULT_SUFFIXES
    from mitxgraders.helpers.calc.exceptions import CalcZeroDivisionError, CalcError
    x = _arg(E, name)
    try:
        want = DEFS[name](x)
        werr = None
    except ZeroDivisionError:
        want, werr = None, 'zero'
    try:
        got, _ = evaluator('%s(x)' % name, {'x': x}, DEFAULT_FUNCTIONS, DEFAULT_SUFFIXES)
        gerr = None
    except CalcZeroDivisionError:
        got, gerr = None, 'zero'
    E.check('zero-denominator-raises-student-facing-error', gerr == werr)
    if gerr is None and werr is None:
        E.check('equals-textbook-definition', near_eq(got, want))
    return gerr or 'value'


def h_roundtrip(E, name):
    """f(f_inverse(x)) = x under listed axioms about the primitives"""
    from mitxgraders.helpers.calc.expressions import evaluator, DEFAULT_FUNCTIONS, DEFAULT_SUFFIXES
    from mitxgraders.helpers.calc.exceptions import CalcZeroDivisionError
    x = _arg(E, name)
    if E.mode == 'sym':
        E.assume(x != 0)
    elif x == 0:
        return 'skip'
    inv = {'arcsec': 'sec', 'arccsc': 'csc', 'arccot': 'cot', 'arcsech': 'sech', 'arccsch': 'csch', 'arccoth': 'coth'}[name]
    if E.mode == 'sym':
        r = lift(1 / x)
        ax = {
            'arcsec': ('cos(arccos y) = y for |y|<=1', uf('cos')(uf('arccos')(r)) == r),
            'arccsc': ('sin(arcsin y) = y for |y|<=1', uf('sin')(uf('arcsin')(r)) == r),
            'arcsech': ('cosh(arccosh y) = y for y>=1', uf('cosh')(uf('arccosh')(r)) == r),
            'arccsch': ('sinh(arcsinh y) = y', uf('sinh')(uf('arcsinh')(r)) == r),
            'arccoth': ('tanh(arctanh y) = y for |y|<1', uf('tanh')(uf('arctanh')(r)) == r),
        }
        if name in ax:
            E.axiom(*ax[name])
        else:
            t = uf('arctan')(lift(x))
            E.axiom('tan(arctan x) = x', uf('tan')(t) == lift(x))
            E.axiom('tan(pi/2 - t) = 1/tan t', uf('tan')(lift(PI / 2) - t) == 1 / uf('tan')(t))
            E.axiom('tan(-pi/2 - t) = 1/tan t', uf('tan')(lift(-PI / 2) - t) == 1 / uf('tan')(t))
    try:
        got, _ = evaluator('%s(%s(x))' % (inv, name), {'x': x}, DEFAULT_FUNCTIONS, DEFAULT_SUFFIXES)
    except CalcZeroDivisionError:
        E.check('roundtrip-defined', False)
        return 'zero'
    if E.mode == 'sym':
        E.check('f(f_inverse(x))=x', near_eq(got, x))
    else:
        E.check('f(f_inverse(x))=x', abs(got - x) <= 1e-6 * (1 + abs(x)))
    return 'value'


def h_arctan2(E):
    from mitxgraders.helpers.calc.expressions import evaluator, DEFAULT_FUNCTIONS, DEFAULT_SUFFIXES
    from mitxgraders.helpers.calc.exceptions import FunctionEvalError, CalcError
    p, q = E.real('p', -3, 3), E.real('q', -3, 3)
    try:
        got, _ = evaluator('arctan2(p, q)', {'p': p, 'q': q}, DEFAULT_FUNCTIONS, DEFAULT_SUFFIXES)
        err = None
    except CalcError as e:
        got, err = None, type(e).__name__
    origin = sand(near_eq(p, 0), near_eq(q, 0))
    E.check('arctan2-raises-exactly-at-origin', siff(err is not None, origin))
    if err is None:
        if E.mode == 'sym':
            E.check('arctan2(x,y)-is-angle-of-point-(x,y)', got == SymReal(uf('arctan2', 2)(lift(q), lift(p))))   # numpy order is (y, x)
        else:
            E.check('arctan2(x,y)-is-angle-of-point-(x,y)', abs(got - math.atan2(q, p)) < 1e-12)
    return err or 'value'


def h_kron_minmax(E, n):
    from mitxgraders.helpers.calc.expressions import evaluator, DEFAULT_FUNCTIONS, DEFAULT_SUFFIXES
    vs = {'v%d' % i: E.real('v%d' % i, -3, 3) for i in range(n)}
    names = list(vs)
    got, _ = evaluator('kronecker(v0, v1)', vs, DEFAULT_FUNCTIONS, DEFAULT_SUFFIXES)
    E.check('kronecker', near_eq(got, sif(near_eq(vs['v0'], vs['v1']), 1, 0)))
    mn, _ = evaluator('min(%s)' % ','.join(names), vs, DEFAULT_FUNCTIONS, DEFAULT_SUFFIXES)
    mx, _ = evaluator('max(%s)' % ','.join(names), vs, DEFAULT_FUNCTIONS, DEFAULT_SUFFIXES)
    vals = list(vs.values())
    E.check('min-is-least', sand(sor(*[near_eq(mn, v) for v in vals]), *[near_le(mn, v) for v in vals]))
    E.check('max-is-greatest', sand(sor(*[near_eq(mx, v) for v in vals]), *[near_le(v, mx) for v in vals]))
    return 'ok'


def h_reim(E):
    from mitxgraders.helpers.calc.expressions import evaluator, DEFAULT_FUNCTIONS, DEFAULT_SUFFIXES
    x = E.real('x', -3, 3)
    y = E.real('y', -3, 3)
    env = {'x': x, 'y': y}
    re, _ = evaluator('re(x)', env, DEFAULT_FUNCTIONS, DEFAULT_SUFFIXES)
    im, _ = evaluator('im(x)', env, DEFAULT_FUNCTIONS, DEFAULT_SUFFIXES)
    cj, _ = evaluator('conj(x)', env, DEFAULT_FUNCTIONS, DEFAULT_SUFFIXES)
    ab, _ = evaluator('abs(x-y)', env, DEFAULT_FUNCTIONS, DEFAULT_SUFFIXES)
    E.check('re-im-conj-on-reals', sand(near_eq(re, x), near_eq(im, 0), near_eq(cj, x)))
    E.check('abs', near_eq(ab, sif(x - y >= 0, x - y, y - x)))
    fl, _ = evaluator('floor(x)', env, DEFAULT_FUNCTIONS, DEFAULT_SUFFIXES)
    ce, _ = evaluator('ceil(x)', env, DEFAULT_FUNCTIONS, DEFAULT_SUFFIXES)
    E.check('floor-ceil', sand(near_le(fl, x), x < fl + 1, near_le(x, ce), ce < x + 1))
    return 'ok'


def _arr(E, name, shape):
    from mitxgraders.helpers.calc.math_array import MathArray
    a = np.empty(shape, dtype=object)
    for idx in np.ndindex(*shape):
        a[idx] = E.real('%s%s' % (name, ''.join(map(str, idx))), -3, 3)
    return MathArray(a.astype(float) if E.mode == 'conc' else a)


def h_array_funcs(E, n):
    from mitxgraders import MatrixGrader
    import mitxgraders.helpers.calc.expressions as X
    F = MatrixGrader.default_functions
    A = _arr(E, 'a', (n, n))
    u = _arr(E, 'u', (3,))
    v = _arr(E, 'v', (3,))
    env = {'A': A, 'u': u, 'v': v}
    with shadow(X, np=NpObjProxy()):
        ev = lambda s: X.evaluator(s, env, F, X.DEFAULT_SUFFIXES, max_array_dim=2)[0]   # noqa
        tr = ev('trace(A)')
        tA = ev('trans(A)')
        cA = ev('ctrans(A)')
        aA = ev('adj(A)')
        cr = ev('cross(u, v)')
        nu = ev('norm(u)')
        au = ev('abs(u)')
        nA = ev('norm(A)')
    E.check('trace', near_eq(tr, sum(A[i, i] for i in range(n))))
    for name, M in (('trans', tA), ('ctrans', cA), ('adj', aA)):
        E.check(name, M.shape == (n, n) and sand(*[near_eq(M[i, j], A[j, i]) for i in range(n) for j in range(n)]))
    want = [u[1] * v[2] - v[1] * u[2], u[2] * v[0] - v[2] * u[0], u[0] * v[1] - v[0] * u[1]]
    E.check('cross', cr.shape == (3,) and sand(*[near_eq(cr[i], want[i]) for i in range(3)]))
    s2 = sum(u[i] * u[i] for i in range(3))
    E.check('norm-and-abs-of-vector', sand(nu >= 0, near_eq(nu * nu, s2), au >= 0, near_eq(au * au, s2)))
    sA = sum(A[i, j] * A[i, j] for i in range(n) for j in range(n))
    E.check('frobenius-norm', sand(nA >= 0, near_eq(nA * nA, sA)))
    return 'ok'


# ------------------------------------------------------------------------------------------------ concrete companion grid
REAL_PTS = [-2.5, -1.0, -0.75, -0.3, 0.2, 0.5, 0.9, 1.0, 1.3, 2.0, 3.7, 10.0, 1e-3, 25.5]
CPLX_PTS = [0.3 + 0.4j, -0.3 + 0.4j, 1.5 - 2j, -2 - 0.5j, 0.1j, -3j, 2 + 2j, 0.9 - 0.1j, -1.2 + 0.05j, 4 + 0j, 0.5 + 0j, -0.5 - 0.0j]


def _c(f):
    return lambda z: f(complex(z))


REF = {
    'sin': cmath.sin, 'cos': cmath.cos, 'tan': cmath.tan, 'exp': cmath.exp, 'sqrt': cmath.sqrt, 'ln': cmath.log, 'log10': cmath.log10,
    'log2': lambda z: cmath.log(z) / math.log(2), 'sinh': cmath.sinh, 'cosh': cmath.cosh, 'tanh': cmath.tanh, 'arcsin': cmath.asin, 'arccos': cmath.acos,
    'arctan': cmath.atan, 'arcsinh': cmath.asinh, 'arccosh': cmath.acosh, 'arctanh': cmath.atanh,
    'sec': lambda z: 1 / cmath.cos(z), 'csc': lambda z: 1 / cmath.sin(z), 'cot': lambda z: 1 / cmath.tan(z),
    'sech': lambda z: 1 / cmath.cosh(z), 'csch': lambda z: 1 / cmath.sinh(z), 'coth': lambda z: 1 / cmath.tanh(z),
}
INVERSES = {'arcsin': 'sin', 'arccos': 'cos', 'arctan': 'tan', 'arcsinh': 'sinh', 'arccosh': 'cosh', 'arctanh': 'tanh', 'arcsec': 'sec', 'arccsc': 'csc',
            'arccot': 'cot', 'arcsech': 'sech', 'arccsch': 'csch', 'arccoth': 'coth', 'ln': 'exp', 'sqrt': None}
REAL_DOMAIN = {'sqrt': lambda x: True, 'ln': lambda x: x != 0, 'log10': lambda x: x != 0, 'log2': lambda x: x != 0, 'arctanh': lambda x: abs(x) != 1,
               'arccosh': lambda x: x >= 1, 'arcsec': lambda x: abs(x) >= 1, 'arccsc': lambda x: abs(x) >= 1, 'arcsech': lambda x: 0 < x <= 1,
               'arccsch': lambda x: x != 0, 'arccoth': lambda x: abs(x) > 1, 'arccot': lambda x: True, 'csch': lambda x: x != 0, 'coth': lambda x: x != 0}


def h_grid(E, name):
    """plain concrete evaluation (no solver): table entry vs cmath, inverse identities, on a fixed grid"""
    from mitxgraders.helpers.calc.expressions import evaluator, DEFAULT_FUNCTIONS, DEFAULT_SUFFIXES
    from mitxgraders.exceptions import StudentFacingError
    bad = []
    n = 0
    for z in REAL_PTS + CPLX_PTS:
        if not isinstance(z, complex) and not REAL_DOMAIN.get(name, lambda x: True)(z):
            continue
        if isinstance(z, complex) and name in ('arccosh', 'arcsech', 'arcsec', 'arccsc', 'arccot', 'arccoth', 'arccsch', 'arcsin', 'arccos', 'arctanh') and z.imag == 0:
            continue
        try:
            got, _ = evaluator('%s(z)' % name, {'z': z}, DEFAULT_FUNCTIONS, DEFAULT_SUFFIXES)
        except StudentFacingError as e:
            bad.append(('raised', repr(z), type(e).__name__))
            continue
        n += 1
        if got != got:
            bad.append(('nan', repr(z)))
            continue
        if name in REF:
            try:
                want = REF[name](z)
                if abs(complex(got) - want) > 1e-9 * (1 + abs(want)):
                    bad.append(('value', repr(z), repr(got), repr(want)))
            except (ValueError, ZeroDivisionError, OverflowError):
                pass
        inv = INVERSES.get(name)
        if inv:
            try:
                back, _ = evaluator('%s(w)' % inv, {'w': got}, DEFAULT_FUNCTIONS, DEFAULT_SUFFIXES)
                if abs(complex(back) - complex(z)) > 1e-7 * (1 + abs(z)):
                    bad.append(('inverse', repr(z), repr(back)))
            except StudentFacingError as e:
                bad.append(('inverse-raised', repr(z), type(e).__name__))
        if name == 'sqrt' and abs(complex(got) ** 2 - complex(z)) > 1e-9 * (1 + abs(z)):
            bad.append(('sqrt', repr(z)))
    E.check('table-entry-matches-definition-on-grid', not bad and n > 5)
    if bad:
        E.note('grid-failures', bad[:5])
    return bad[:3]


def h_constants(E):
    from mitxgraders.helpers.calc.mathfuncs import DEFAULT_VARIABLES, DEFAULT_FUNCTIONS
    from mitxgraders import MatrixGrader
    ok = (DEFAULT_VARIABLES['i'] == 1j and DEFAULT_VARIABLES['j'] == 1j and DEFAULT_VARIABLES['e'] == math.e and DEFAULT_VARIABLES['pi'] == math.pi
          and set(DEFAULT_VARIABLES) == {'i', 'j', 'e', 'pi'})
    E.check('constants', ok)
    want = {'sin', 'cos', 'tan', 'sec', 'csc', 'cot', 'sqrt', 'log10', 'log2', 'ln', 'exp', 'arccos', 'arcsin', 'arctan', 'arcsec', 'arccsc', 'arccot', 'abs',
            'fact', 'factorial', 'sinh', 'cosh', 'tanh', 'sech', 'csch', 'coth', 'arcsinh', 'arccosh', 'arctanh', 'arcsech', 'arccsch', 'arccoth', 'floor', 'ceil',
            'arctan2', 'kronecker', 'min', 'max', 're', 'im', 'conj'}
    E.check('default-function-names', set(DEFAULT_FUNCTIONS) == want)
    E.check('matrix-function-names', set(MatrixGrader.default_functions) == want | {'norm', 'trans', 'det', 'trace', 'ctrans', 'adj', 'cross'})
    return 'ok'


ARITY = [('sin(1,2)', 'ArgumentError'), ('sin()', 'UnableToParse'), ('arctan2(1)', 'ArgumentError'), ('arctan2(1,2,3)', 'ArgumentError'), ('min(1)', 'ArgumentError'),
         ('kronecker(1)', 'ArgumentError'), ('cross([1,2,3])', 'ArgumentError'), ('cross([1,2],[1,2])', 'ArgumentShapeError'), ('sin([1,2])', 'ArgumentShapeError'),
         ('trace([1,2])', 'ArgumentShapeError'), ('trace([[1,2,3],[4,5,6]])', 'ArgumentShapeError'), ('det([[1,2,3],[4,5,6]])', 'ArgumentShapeError'),
         ('abs([[1,2],[3,4]])', 'FunctionEvalError'), ('min([1,2],3)', 'ArgumentShapeError'), ('arctan2([1],[2,3])', 'ArgumentShapeError'), ('re(1,2)', 'ArgumentError'),
         ('arctan2(0,0)', 'FunctionEvalError'), ('csc(0)', 'CalcZeroDivisionError'), ('arccsc(0)', 'CalcZeroDivisionError'), ('ln(0)', 'CalcZeroDivisionError'),
         ('coth(0)', 'CalcZeroDivisionError'), ('exp(1000)', 'CalcOverflowError'), ('cosh(1000)', 'CalcOverflowError')]


def h_arity(E, idx):
    from mitxgraders import MatrixGrader
    from mitxgraders.helpers.calc.expressions import evaluator, DEFAULT_SUFFIXES
    from mitxgraders.exceptions import StudentFacingError
    expr, cls = ARITY[idx]
    try:
        v, _ = evaluator(expr, {}, MatrixGrader.default_functions, DEFAULT_SUFFIXES, max_array_dim=2)
        E.check('wrong-count-or-shape-or-domain-raises-student-facing-error', False)
        return repr(v)
    except StudentFacingError as e:
        E.check('wrong-count-or-shape-or-domain-raises-student-facing-error', True)
        E.check('error-class', type(e).__name__ == cls)
        return type(e).__name__


REAL_ONLY = ['arctan2(z, 1)', 'arctan2(1, z)', 'arctan2(z, z)', 'min(z, 1)', 'min(1, z)', 'max(z, 2)', 'max(1, 2, z)', 'floor(z)', 'ceil(z)', 'min(1, 2, 3, z)']
COMPLEX_VALUES = [1j, 1 + 1j, 2 - 0.5j, -3j, 1 + 0j, np.complex128(0.5 + 2j)]


def h_complex_args(E, idx):
    """functions whose domain is the reals (ordering, rounding, the angle of a point): a complex argument - also one with zero imaginary part -
    is outside the domain and must be a student-facing error, never a number"""
    from mitxgraders import MatrixGrader
    from mitxgraders.helpers.calc.expressions import evaluator, DEFAULT_SUFFIXES
    from mitxgraders.exceptions import StudentFacingError
    z = E.choice('z', COMPLEX_VALUES)
    try:
        v, _ = evaluator(REAL_ONLY[idx], {'z': z}, MatrixGrader.default_functions, DEFAULT_SUFFIXES)
    except StudentFacingError as e:
        E.check('complex-argument-to-real-only-function-is-student-facing-error', True)
        return type(e).__name__
    E.check('complex-argument-to-real-only-function-is-student-facing-error', False)
    return repr(v)


def h_carrier(E, fname):
    """the value of a function does not depend on the numeric type that carries its argument: python int, numpy integer, numpy float, a whole number
    produced inside the expression (kronecker sums) all give what the float of the same value gives - or the same student-facing error"""
    from mitxgraders.helpers.calc.expressions import evaluator, DEFAULT_FUNCTIONS, DEFAULT_SUFFIXES
    from mitxgraders.exceptions import StudentFacingError
    n = E.choice('n', [2, 1, -2, 0, 3])

    def outcome(expr, env):
        try:
            v, _ = evaluator(expr, env, DEFAULT_FUNCTIONS, DEFAULT_SUFFIXES)
            return ('value', complex(v))
        except StudentFacingError as e:
            return ('error', type(e).__name__)
    ref = outcome('%s(t)' % fname, {'t': float(n)})
    inside = '+'.join(['kronecker(1,1)'] * abs(n)) if n else 'kronecker(1,2)'
    cases = {'python-int': ('%s(t)' % fname, {'t': int(n)}), 'np.int64': ('%s(t)' % fname, {'t': np.int64(n)}), 'np.int32': ('%s(t)' % fname, {'t': np.int32(n)}),
             'np.float64': ('%s(t)' % fname, {'t': np.float64(n)}), 'literal': ('%s(%s)' % (fname, ('0-%d' % -n) if n < 0 else str(n)), {}),
             'kronecker-sum': ('%s(%s%s)' % (fname, '0-(' if n < 0 else '(', inside + ')'), {}), 'direct-call': None}
    for kind, c in cases.items():
        if c is None:
            try:
                got = ('value', complex(DEFAULT_FUNCTIONS[fname](n)))
            except StudentFacingError as e:
                got = ('error', type(e).__name__)
            except (ZeroDivisionError, FloatingPointError, ValueError, OverflowError):
                got = ('error', 'raw')           # outside the evaluator the raw numpy/python error is the documented behaviour
            same = (got[0] == ref[0] == 'error') or (got[0] == ref[0] == 'value' and abs(got[1] - ref[1]) <= 1e-12 * (1 + abs(ref[1])))
        else:
            got = outcome(*c)
            same = got == ref if got[0] == 'error' or ref[0] == 'error' else abs(got[1] - ref[1]) <= 1e-12 * (1 + abs(ref[1]))
        E.check('value-independent-of-the-numeric-carrier-type', same)
    return ref[0]


TINY_VALUES = [('exp(-800)', 0.0), ('exp(-710)', math.exp(-710)), ('exp(-750+i)', 0.0), ('sin(1e-310)', 1e-310), ('tanh(1e-320)', 1e-320), ('sech(800)', None), ('exp(-745)', 5e-324),
               ('arctan(1e-315)', 1e-315), ('sinh(1e-310)', 1e-310), ('1/cosh(900)', None)]


def h_tiny_values(E, idx):
    """function values too small for a normal double are the textbook value rounded (zero or a subnormal), not an error (overflow IS an error)"""
    from mitxgraders.helpers.calc.expressions import evaluator, DEFAULT_FUNCTIONS, DEFAULT_SUFFIXES, DEFAULT_VARIABLES
    from mitxgraders.helpers.calc.exceptions import CalcOverflowError
    expr, want = TINY_VALUES[idx]
    try:
        got, _ = evaluator(expr, dict(DEFAULT_VARIABLES), DEFAULT_FUNCTIONS, DEFAULT_SUFFIXES)
    except CalcOverflowError:
        E.check('underflow-gives-the-rounded-textbook-value', want is None)
        return 'overflow'
    E.check('underflow-gives-the-rounded-textbook-value', want is not None and abs(complex(got) - want) <= 1e-12 * abs(want) + 1e-322)
    return 'value'


CONJ_CASES = [('ctrans([1+2*i, 3-i])', [1 - 2j, 3 + 1j]), ('adj([1+2*i, 3-i])', [1 - 2j, 3 + 1j]), ('adj(2+5*i)', 2 - 5j), ('ctrans(2+5*i)', 2 - 5j), ('ctrans([[1+i, 2],[3*i, 4]])', [[1 - 1j, -3j], [2, 4]]),
              ('adj([[1+i, 2],[3*i, 4]])', [[1 - 1j, -3j], [2, 4]]), ('trans([1+2*i, 3-i])', [1 + 2j, 3 - 1j]), ('trans([[1+i, 2],[3*i, 4]])', [[1 + 1j, 3j], [2, 4]]),
              ('conj([1+2*i, 3-i])', [1 - 2j, 3 + 1j]), ('ctrans([[1+i, 2, 3*i]])', [[1 - 1j], [2], [-3j]]), ('re([1+2*i, 3-i])', [1, 3]), ('im([[1+2*i],[3-i]])', [[2], [-1]]),
              ('norm([3*i, 4])', 5.0), ('abs([3*i, 4])', 5.0), ('trace([[i, 2],[3, 1-i]])', 1 + 0j), ('det([[i, 0],[0, i]])', -1 + 0j)]


def h_conj_cases(E, idx):
    """concrete companion with COMPLEX entries (the symbolic arrays of array_funcs are real, where conjugation is invisible): conjugate transposes conjugate
    vectors and scalars too, plain transposes do not, re / im / norm / trace / det take complex arrays"""
    from mitxgraders import MatrixGrader
    from mitxgraders.helpers.calc.expressions import evaluator, DEFAULT_SUFFIXES, DEFAULT_VARIABLES
    expr, want = CONJ_CASES[idx]
    got, _ = evaluator(expr, dict(DEFAULT_VARIABLES), MatrixGrader.default_functions, DEFAULT_SUFFIXES, max_array_dim=2)
    w = np.asarray(want, dtype=complex)
    g_ = np.asarray(got, dtype=complex)
    E.check('complex-array-function-value', g_.shape == w.shape and bool(np.allclose(g_, w, rtol=1e-12, atol=1e-12)))
    return 'ok'


SHAPES = [(), (1,), (2,), (3,), (1, 1), (1, 3), (2, 2), (2, 3), (3, 3), (1, 1, 1), (2, 2, 2), (3, 3, 3), (2, 2, 2, 2)]


def _shape_domain(fname, shape):
    """documented argument domain of every function of the MatrixGrader namespace, by argument shape"""
    nd = len(shape)
    if fname in ('re', 'im', 'conj', 'norm', 'trans', 'ctrans', 'adj'):
        return True
    if fname == 'abs':
        return nd <= 1
    if fname in ('det', 'trace'):
        return nd == 2 and shape[0] == shape[1]
    if fname == 'cross':
        return shape == (3,)
    size = 1
    for k in shape:
        size *= k
    if nd > 0 and size == 1:
        return None           # an array holding ONE number is 'number-like' (specify_domain.number_validator): the plain functions take it as that number,
        # the derived ones (1/sin ...) refuse to divide by an array - either outcome is a value or a student-facing error, both allowed here
    return nd == 0        # every element-wise function, arctan2, kronecker, min, max: scalars only


def h_shapes(E, fname):
    """every function of the MatrixGrader namespace x every argument shape up to 4 axes: an argument outside the documented domain is a
    student-facing error, an argument inside it is evaluated (the entries do not matter for the shape decision; they are concrete)"""
    from mitxgraders import MatrixGrader
    from mitxgraders.helpers.calc.expressions import evaluator, DEFAULT_SUFFIXES
    from mitxgraders.helpers.calc.math_array import MathArray
    from mitxgraders.exceptions import StudentFacingError
    shape = E.choice('shape', SHAPES)
    x = (0.5 if fname == 'arcsech' else 1.5) if shape == () else MathArray((np.arange(int(np.prod(shape)), dtype=float).reshape(shape) + 1.0) / 7.0 + np.eye(shape[0])
                                           if len(shape) == 2 and shape[0] == shape[1] else (np.arange(int(np.prod(shape)), dtype=float).reshape(shape) + 1.0) / 7.0)
    two = fname in ('cross', 'min', 'max', 'arctan2', 'kronecker')
    expr = '%s(x, x)' % fname if two else '%s(x)' % fname
    ok = _shape_domain(fname, shape)
    try:
        v, _ = evaluator(expr, {'x': x}, MatrixGrader.default_functions, DEFAULT_SUFFIXES, max_array_dim=4)
    except StudentFacingError as e:
        E.check('argument-shape-outside-domain-iff-student-facing-error', ok is None or not ok)
        return type(e).__name__
    E.check('argument-shape-outside-domain-iff-student-facing-error', ok is None or ok)
    if fname in ('re', 'im', 'conj'):
        E.check('entrywise-function-keeps-the-shape', getattr(v, 'shape', ()) == shape)
    if fname in ('trans', 'ctrans', 'adj'):
        E.check('transpose-reverses-the-shape', getattr(v, 'shape', ()) == tuple(reversed(shape)))
    if fname in ('norm', 'abs', 'det', 'trace'):
        E.check('scalar-valued-function-returns-a-scalar', getattr(v, 'shape', ()) == ())
    return 'value'


def harnesses(tier):
    hs = []
    T = tier == 'thorough'

    def add(fn, base, params, bounds, **kw):
        hs.append(Harness(pname(base, **params), fn, tuple(params.values()), FUNCS, bounds, STUBS, **kw))
    for name in DEFS:
        add(h_derived, 'derived', dict(f=name), 'any real argument in the real domain, |x|<=6')
    for name in ('arcsec', 'arccsc', 'arccot', 'arcsech', 'arccsch', 'arccoth'):
        add(h_roundtrip, 'roundtrip', dict(f=name), 'any real argument in the real domain, |x|<=6, x != 0')
    add(h_arctan2, 'arctan2', {}, 'any reals in [-3,3]^2')
    for n in (2, 3, 4) + ((5,) if T else ()):
        add(h_kron_minmax, 'kron_minmax', dict(n=n), 'any reals in [-3,3]')
    add(h_reim, 'reim_abs_floor', {}, 'any reals in [-3,3]')
    for n in (2, 3) + ((4,) if T else ()):
        add(h_array_funcs, 'array_funcs', dict(n=n), 'symbolic entries')
    for name in sorted(set(REF) | set(INVERSES)):
        add(h_grid, 'grid', dict(f=name), 'concrete grid (plain evaluation)', validate=False)
    from mitxgraders import MatrixGrader
    for name in sorted(MatrixGrader.default_functions):
        if name != 'factorial' and name != 'fact':
            add(h_shapes, 'shapes', dict(f=name), 'argument shapes (), 2, 3, 2x2, 2x3, 3x3, 2x2x2, 3x3x3, 2x2x2x2', validate=False)
    from mitxgraders.helpers.calc.mathfuncs import ELEMENTWISE_FUNCTIONS
    for name in sorted(ELEMENTWISE_FUNCTIONS):
        if name not in ('factorial', 'fact'):
            add(h_carrier, 'carrier', dict(f=name), 'argument 2, 1, -2, 0, 3 carried as int / numpy int / numpy float / literal / kronecker sum / direct call', validate=False)
    for i in range(len(CONJ_CASES)):
        add(h_conj_cases, 'conj_cases', dict(i=i), CONJ_CASES[i][0], validate=False)
    for i in range(len(TINY_VALUES)):
        add(h_tiny_values, 'tiny_values', dict(i=i), TINY_VALUES[i][0], validate=False)
    for i in range(len(REAL_ONLY)):
        add(h_complex_args, 'complex_args', dict(i=i), REAL_ONLY[i] + ' with 6 complex values', validate=False)
    add(h_constants, 'constants', {}, 'tables')
    for i in range(len(ARITY)):
        add(h_arity, 'arity', dict(i=i), ARITY[i][0], validate=False)
    return hs
