"""C07 - SingleListGrader scores a delimited list by the documented credit formula."""
import itertools

from symx import Harness, pname, sand, sor, simplies, siff, near_le, near_eq, snot, sif, smax, Abort
from symx.stubs import make_table_grader, wellformed

PROPERTY = 'C07'
EXPLANATION = ('The real SingleListGrader (check_response, process_grade_list, consolidate_single_return, consolidate_grades, padded_check, '
               'find_optimal_order, Munkres, ItemGrader.check, AbstractGrader.__call__) is run on delimiter-joined submissions with a '
               'table-driven subgrader whose per-(item, submitted item) credits and the answer-level credit are z3 reals. On every path '
               'z3 decides grade = a * max(0, (best - surplus)/n_expect) with best = positional sum (ordered) or the maximum over ALL '
               'injective assignments (unordered), the partial_credit=False cut, when the answer-level message is shown, invariance under '
               'permuting the submission, and MissingInput for wrong counts / blank items when configured.'
               " Blank submitted items (missing_error off) are items like any other: the subgrader's credit for them enters the formula.")
ASSUMPTIONS = ['item credits arbitrary reals in [0,1] ("full") or (0,1) ("interior"); answer credit a in [0,1]; item strings concrete tokens']
BOUNDS = {'quick': 'expected 1-3 x submitted 1-4 items: <=2x2 full (unordered), 2x3/3x2/3x3 interior, ordered up to 3x4 full; delimiters "," ";" "--"; 2 alternative lists (2 items); '
                   'one level of nesting 2x2 with ordered inner lists; all length_error/missing_error flag combinations on concrete blank/short inputs',
          'thorough': 'adds 3x3 full, 2x4 full, 3x2 full, nested unordered inner lists, permutation invariance at 3x3 interior'}
OUTSIDE = ['IEEE rounding of credit sums', 'lists longer than the bounds', 'SymStr submissions (covered for delimiters in C02/C07-O2 when built)']
DEADLINE = {'quick': 600, 'thorough': 2400}
FUNCS = ['SingleListGrader.check_response/process_grade_list/infer_from_expect/post_schema_ans_val', 'listgrader.consolidate_single_return',
         'listgrader.consolidate_grades', 'listgrader.find_optimal_order', 'listgrader.padded_check/get_padded_lists', 'munkres.Munkres.compute',
         'ItemGrader.check', 'AbstractGrader.__call__']
STUBS = ['TableGrader (author-defined ItemGrader returning table credit)']
BR = '<br/>\n'


def _table(E, exps, stus, interior):
    return {(e, s): E.real('g_%s_%s' % (e, s), 0, 1, lo_open=interior, hi_open=interior) for e in exps for s in stus}


def _formula(a, best, n_exp, n_stu, partial):
    surplus = max(0, n_stu - n_exp)
    raw = (best - surplus) / n_exp
    raw = smax(raw, 0)
    if not partial:
        raw = sif(raw < 1, 0, raw)
    return a * raw


def _assignments(n_exp, n_stu):
    k = min(n_exp, n_stu)
    for es in itertools.permutations(range(n_exp), k):
        for ss in itertools.combinations(range(n_stu), k):
            yield list(zip(es, ss))


def h_slg(E, ordered, partial, n_exp, n_stu, interior, delim, perm_check, blank=False):
    from mitxgraders import SingleListGrader
    exps = ['e%d' % i for i in range(n_exp)]
    stus = ['s%d' % j for j in range(n_stu)]
    if blank:
        stus[-1] = ''       # a blank item (missing_error off) is an item like any other: the subgrader decides what it is worth
    T = _table(E, exps, stus, interior)
    a = E.real('a', 0, 1)
    TG = make_table_grader(T)
    g = SingleListGrader(answers={'expect': list(exps), 'grade_decimal': a, 'msg': 'ANSMSG'}, subgrader=TG(), ordered=ordered,
                         partial_credit=partial, delimiter=delim, **(dict(missing_error=False) if blank else {}))
    sub = (delim + ' ').join(stus)
    r = g(None, ' ' + sub)
    s_ok, c_ok = wellformed(r)
    E.check('wellformed', sand(s_ok, c_ok))
    lines = [x for x in r['msg'].split(BR) if x]
    shown = 'ANSMSG' in lines
    tags = [tuple(x.split('/')) for x in lines if x != 'ANSMSG']
    E.check('message-structure', all(t in T for t in tags) and len({t[0] for t in tags}) == len(tags) == len({t[1] for t in tags})
            and len(tags) == min(n_exp, n_stu))
    if not (all(t in T for t in tags) and len(tags) == min(n_exp, n_stu)):
        return 'bad-tags'
    used = sum(T[t] for t in tags)
    if ordered:
        E.check('ordered-positional', tags == [(exps[i], stus[i]) for i in range(min(n_exp, n_stu))])
        best = used
    else:
        alts = [sum(T[(exps[i], stus[j])] for i, j in asg) for asg in _assignments(n_exp, n_stu)]
        E.check('optimal-assignment', sand(*[near_le(x, used) for x in alts]))
        best = used
    E.check('credit-formula', near_eq(r['grade_decimal'], _formula(a, best, n_exp, n_stu, partial)))
    all_awarded = sand(n_exp == n_stu, *[T[t] > 0 for t in tags])
    E.check('answer-message-iff-all-awarded', siff(shown, all_awarded))
    if perm_check and not ordered:
        for p in ([list(reversed(stus))] + ([stus[1:] + stus[:1]] if n_stu > 2 else [])):
            r2 = g(None, (delim + ' ').join(p))
            E.check('permutation-invariant', near_eq(r2['grade_decimal'], r['grade_decimal']))
    return [list(t) for t in tags] + [shown, str(r['ok'])]


STRING_ANSWER_ITEMS = [['ann', 'bob', 'dan'], ['a', 'nd', 'd'], ['x', 'y', 'z'], ['nan', 'dad', 'and'], ['-a', 'b-', '-'], ['a', 'b', ''], ['', 'a', 'b']]


def h_string_answers(E, delim):
    """an expected list written as ONE delimiter-separated string means the same as the list of its items - also when items begin or end with characters
    of a multi-character delimiter, or (missing_error off) when the first or last item is blank: same grade for every submission"""
    from mitxgraders import SingleListGrader, StringGrader
    items = E.choice('items', STRING_ANSWER_ITEMS)
    blankish = '' in items
    if blankish and delim.strip() == '':
        raise Abort()
    subs = [list(items), list(reversed(items)), items[:2] + ['zzz'], items[:1]]
    sub = subs[E.fork_int('submission', 0, len(subs) - 1)]
    kw = dict(subgrader=StringGrader(), delimiter=delim, ordered=E.fork_bool('ordered'), missing_error=not blankish, length_error=False)
    try:
        g_str = SingleListGrader(answers=delim.join(items), **kw)
        g_lst = SingleListGrader(answers=list(items), **kw)
    except Exception as e:   # noqa - blank items in list-form answers are refused at construction in both forms or in neither
        raise Abort()
    text = delim.join(sub)
    a, b = g_str(None, text), g_lst(None, text)
    E.check('string-form-answer-means-the-list-of-its-items', a['grade_decimal'] == b['grade_decimal'] and a['ok'] == b['ok'])
    if sub == list(items):
        E.check('own-items-earn-full-credit', a['grade_decimal'] == 1)
    return str(a['ok'])


def h_alts(E, ordered, interior, form='two-answers'):
    """two alternative expected lists with their own credits"""
    from mitxgraders import SingleListGrader
    A, B, stus = ['a0', 'a1'], ['b0', 'b1'], ['s0', 's1']
    T = _table(E, A + B, stus, interior)
    ca = E.real('ca', 0, 1)
    cb = E.real('cb', 0, 1)
    TG = make_table_grader(T)
    if form == 'expect-tuple':
        # the alternatives sit inside ONE answer (tuple-valued expect): one credit for both, the better-matching list counts
        cb = ca
        g = SingleListGrader(answers={'expect': (list(A), list(B)), 'grade_decimal': ca}, subgrader=TG(), ordered=ordered)
    else:
        g = SingleListGrader(answers=({'expect': list(A), 'grade_decimal': ca}, {'expect': list(B), 'grade_decimal': cb}), subgrader=TG(), ordered=ordered)
    r = g(None, 's0, s1')
    s_ok, c_ok = wellformed(r)
    E.check('wellformed', sand(s_ok, c_ok))

    def best(X):
        if ordered:
            return T[(X[0], 's0')] + T[(X[1], 's1')]
        return smax(T[(X[0], 's0')] + T[(X[1], 's1')], T[(X[1], 's0')] + T[(X[0], 's1')])
    ga = _formula(ca, best(A), 2, 2, True)
    gb = _formula(cb, best(B), 2, 2, True)
    E.check('best-alternative-formula', near_eq(r['grade_decimal'], smax(ga, gb)))
    return str(r['ok'])


def h_nested(E, inner_ordered, outer_ordered, interior):
    from mitxgraders import SingleListGrader
    ans = [['e00', 'e01'], ['e10', 'e11']]
    stu = [['s0', 's1'], ['s2', 's3']]
    flatE = [x for grp in ans for x in grp]
    flatS = [x for grp in stu for x in grp]
    T = _table(E, flatE, flatS, interior)
    a = E.real('a', 0, 1)
    TG = make_table_grader(T)
    g = SingleListGrader(answers={'expect': [list(x) for x in ans], 'grade_decimal': a},
                         subgrader=SingleListGrader(subgrader=TG(), delimiter=',', ordered=inner_ordered), delimiter=';', ordered=outer_ordered)
    r = g(None, 's0, s1; s2 ,s3')
    s_ok, c_ok = wellformed(r)
    E.check('wellformed', sand(s_ok, c_ok))

    def inner(p, q):
        x = T[(ans[p][0], stu[q][0])] + T[(ans[p][1], stu[q][1])]
        if not inner_ordered:
            x = smax(x, T[(ans[p][1], stu[q][0])] + T[(ans[p][0], stu[q][1])])
        return x / 2
    tot = inner(0, 0) + inner(1, 1)
    if not outer_ordered:
        tot = smax(tot, inner(0, 1) + inner(1, 0))
    E.check('nested-credit-formula', near_eq(r['grade_decimal'], a * tot / 2))
    return str(r['ok'])


def h_errors(E, length_error, missing_error, case):
    """wrong item count / blank items raise MissingInput exactly as configured (concrete submissions, symbolic credits)"""
    from mitxgraders import SingleListGrader
    from mitxgraders.exceptions import MissingInput
    exps = ['e0', 'e1']
    sub, n_items, has_blank = {'short': ('s0', 1, False), 'long': ('s0,s1,s2', 3, False), 'blank-mid': ('s0, ,s1', 3, True),
                               'blank-end': ('s0,s1,', 3, True), 'blank-right-count': ('s0, ', 2, True), 'ok': ('s0,s1', 2, False),
                               'empty': ('', 1, True)}[case]
    T = _table(E, exps, ['s0', 's1', 's2', ''], True)
    TG = make_table_grader(T)
    g = SingleListGrader(answers=list(exps), subgrader=TG(), length_error=length_error, missing_error=missing_error, ordered=(case == 'long'))
    should_raise = (length_error and n_items != 2) or (missing_error and has_blank)
    try:
        r = g(None, sub)
        raised = None
    except MissingInput as e:
        raised = str(e)
    E.check('missing-input-iff-configured', (raised is not None) == should_raise)
    if raised is not None:
        want = 'List length error' if (length_error and n_items != 2) else 'List error: Empty entr'
        E.check('error-kind', raised.startswith(want))
        return raised[:20]
    s_ok, c_ok = wellformed(r)
    E.check('wellformed', sand(s_ok, c_ok))
    return str(r['ok'])


def h_inferred(E, form):
    """string-form answers and inferred expect values are split with the configured delimiter"""
    from mitxgraders import SingleListGrader
    exps, stus = ['e0', 'e1'], ['s0', 's1']
    T = _table(E, exps, stus, True)
    TG = make_table_grader(T)
    if form == 'string-answers':
        g = SingleListGrader(answers='e0; e1', subgrader=TG(), delimiter=';')
        r = g(None, 's0;s1')
    elif form == 'expect-tuple-of-strings':
        g = SingleListGrader(answers={'expect': ('e0; e1',)}, subgrader=TG(), delimiter=';')
        r = g(None, 's0;s1')
    else:
        g = SingleListGrader(subgrader=TG(), delimiter=';')
        r = g('e0;e1', 's0;s1')
    best = smax(T[('e0', 's0')] + T[('e1', 's1')], T[('e1', 's0')] + T[('e0', 's1')])
    E.check('credit-formula', near_eq(r['grade_decimal'], best / 2))
    return str(r['ok'])


def harnesses(tier):
    hs = []

    def add(fn, base, params, bounds, **kw):
        hs.append(Harness(pname(base, **params), fn, tuple(params.values()), FUNCS, bounds, STUBS, **kw))
    full = [(1, 1), (1, 2), (2, 1), (2, 2)]
    for ordered in (True, False):
        for partial in (True, False):
            for (ne, ns) in full:
                add(h_slg, 'slg', dict(ordered=ordered, partial=partial, n_exp=ne, n_stu=ns, interior=False, delim=',', perm=False), 'credits in [0,1]')
            add(h_slg, 'slg', dict(ordered=ordered, partial=partial, n_exp=2, n_stu=3, interior=True, delim=';', perm=False), 'credits in (0,1)')
        add(h_slg, 'slg', dict(ordered=ordered, partial=True, n_exp=3, n_stu=3, interior=True, delim=',', perm=False), 'credits in (0,1)')
    add(h_slg, 'slg', dict(ordered=True, partial=True, n_exp=3, n_stu=4, interior=False, delim=';', perm=False), 'credits in [0,1]')
    for delim in (',', ' and ', '--', ';', 'nd'):
        add(h_string_answers, 'string_answers', dict(delim=delim), '7 item lists x 4 submissions x ordered/unordered', validate=False)
    for ordered in (True, False):
        for partial in (True, False):
            add(h_slg, 'slg', dict(ordered=ordered, partial=partial, n_exp=2, n_stu=2, interior=False, delim=',', perm=False, blank=True), 'last submitted item blank; credits in [0,1]')
    add(h_slg, 'slg', dict(ordered=True, partial=False, n_exp=2, n_stu=3, interior=False, delim=';', perm=False), 'credits in [0,1]')
    add(h_slg, 'slg', dict(ordered=False, partial=True, n_exp=3, n_stu=2, interior=True, delim='--', perm=False), 'credits in (0,1)')
    add(h_slg, 'slg', dict(ordered=False, partial=True, n_exp=2, n_stu=2, interior=False, delim='--', perm=True), 'credits in [0,1], permuted resubmission')
    for ordered in (True, False):
        add(h_alts, 'alts', dict(ordered=ordered, interior=True), '2 alternative lists of 2 items')
        add(h_alts, 'alts', dict(ordered=ordered, interior=True, form='expect-tuple'), '2 alternative lists inside one tuple-valued expect')
    add(h_nested, 'nested', dict(inner_ordered=True, outer_ordered=False, interior=True), '2x2 nested, ";" and ","')
    add(h_nested, 'nested', dict(inner_ordered=True, outer_ordered=True, interior=False), '2x2 nested, ";" and ","')
    for le in (True, False):
        for me in (True, False):
            for case in ('short', 'long', 'blank-mid', 'blank-end', 'blank-right-count', 'ok', 'empty'):
                add(h_errors, 'errors', dict(length_error=le, missing_error=me, case=case), 'concrete submission, credits in [0,1]')
    for form in ('string-answers', 'expect-tuple-of-strings', 'inferred-expect'):
        add(h_inferred, 'inferred', dict(form=form), 'credits in (0,1)')
    from vchecks.c06 import h_step6, h_step1
    for nn in (2, 3):
        hs.append(Harness(pname('solver_step6', n=nn), h_step6, (nn,), FUNCS, 'assignment solver step 6 from an arbitrary pre-state, n=%d' % nn, STUBS))
        hs.append(Harness(pname('solver_step1', n=nn), h_step1, (nn,), FUNCS, 'assignment solver step 1, n=%d' % nn, STUBS))
    if tier == 'thorough':
        for partial in (True, False):
            add(h_slg, 'slg', dict(ordered=False, partial=partial, n_exp=3, n_stu=3, interior=False, delim=',', perm=False), 'credits in [0,1]', max_paths=200000)
        add(h_slg, 'slg', dict(ordered=False, partial=True, n_exp=2, n_stu=4, interior=False, delim=',', perm=False), 'credits in [0,1]', max_paths=100000)
        for partial in (True, False):
            add(h_slg, 'slg', dict(ordered=False, partial=partial, n_exp=2, n_stu=3, interior=False, delim=',', perm=False), 'credits in [0,1]', max_paths=100000)
        add(h_slg, 'slg', dict(ordered=False, partial=False, n_exp=3, n_stu=3, interior=True, delim=',', perm=False), 'credits in (0,1)', max_paths=100000)
        add(h_slg, 'slg', dict(ordered=False, partial=True, n_exp=3, n_stu=4, interior=True, delim=';', perm=False), 'credits in (0,1)', max_paths=200000)
        add(h_slg, 'slg', dict(ordered=False, partial=False, n_exp=2, n_stu=3, interior=True, delim=',', perm=True), 'credits in (0,1), permuted resubmission', max_paths=100000)
        add(h_slg, 'slg', dict(ordered=False, partial=True, n_exp=3, n_stu=2, interior=False, delim=',', perm=False), 'credits in [0,1]', max_paths=100000)
        add(h_slg, 'slg', dict(ordered=True, partial=True, n_exp=3, n_stu=4, interior=False, delim=',', perm=False), 'credits in [0,1]')
        add(h_slg, 'slg', dict(ordered=False, partial=True, n_exp=3, n_stu=3, interior=True, delim=',', perm=True), 'permuted resubmission', max_paths=150000)
        add(h_alts, 'alts', dict(ordered=False, interior=False), '2 alternative lists of 2 items, credits in [0,1]', max_paths=100000)
        add(h_nested, 'nested', dict(inner_ordered=False, outer_ordered=False, interior=True), '2x2 nested unordered', max_paths=150000)
        add(h_nested, 'nested', dict(inner_ordered=False, outer_ordered=True, interior=False), '2x2 nested', max_paths=100000)
    return hs
