"""C12 - every random draw satisfies all constraints its sampling set declares."""
import contextlib
import math

import numpy as np
import z3

from symx import Harness, pname, sand, sor, simplies, siff, near_le, near_eq, snot, sif, smax, smin, is_sym, SymReal, SymInt, Abort, lift
from symx.core import SymComplex, uf
from symx.stubs import shadow, SymRandom, NpRandomProxy, sym_isinstance

PROPERTY = 'C12'
EXPLANATION = ('The sampler classes are constructed by their real constructors (voluptuous validation included) with SYMBOLIC interval ends and run '
               'with numpy\'s / random\'s generators replaced by stubs that return fresh z3 variables constrained only by the documented contracts '
               '(random_sample/rand in [0,1), randint(lo,hi) in [lo,hi), random.choice = any element). z3 decides for every RNG outcome: real and '
               'integer intervals contain the draw whatever the order of the ends (both integer endpoints attainable - a sat query each), complex '
               'rectangles/sectors, discrete sets and function lists return only listed members, RandomFunction has the declared arity and output '
               'dimension, is fixed once drawn and stays within center +/- amplitude (sin uninterpreted with |sin| <= 1); array samplers return '
               'MathArrays of the declared shape whose entries are real, parallel to the (symmetrised) raw draw with the drawn norm in range, '
               'with triangular zeros, (anti)symmetry, diagonal form, zero trace and scalar*identity structure.'
               ' Complex families (2-vectors, 2x2, hermitian / antihermitian whatever `complex` says, identity multiples of a complex scalar) with the complex Frobenius norm stubbed; the SquareMatrices constructor against the documented table of non-existent option combinations (288 combinations).')
ASSUMPTIONS = ['RNG stubs: documented contracts only (listed in stubs)', 'the raw draw has non-zero norm (measure-zero event excluded)',
               'interval ends range over [-6,6] (integers in [-4,4])']
BOUNDS = {'quick': 'RandomFunction input_dim 1-3 x output_dim 1-2 x num_terms 1-2; vectors 2-3, matrices 2x2, 2x3, 3x3, tensor 2x2x2; SquareMatrices dims 2-3 '
                   'x {None, diagonal, symmetric, antisymmetric} x traceless', 'thorough': 'num_terms 3, dimension 4, norm obligation attempted (NRA)'}
OUTSIDE = ['determinant=0 (eigenvalues: LAPACK) and determinant=1 beyond the stubbed real 2x2/3x3 families', 'OrthogonalMatrices/UnitaryMatrices (scipy absent)',
           'complex array samplers beyond 2-vectors and 2x2 (the Frobenius norm of complex object arrays is stubbed: numpy would take its real-norm path)',
           'argument (angle) of ComplexSector beyond the polar form', 'retry-loop counts', 'IEEE rounding']
DEADLINE = {'quick': 600, 'thorough': 1500}
FUNCS = ['sampling.RealInterval.__init__/gen_sample', 'sampling.IntegerRange', 'sampling.ComplexRectangle', 'sampling.ComplexSector', 'sampling.DiscreteSet',
         'sampling.SpecificFunctions', 'sampling.RandomFunction.gen_sample/random_function', 'matrixsampling.ArraySamplingSet.generate_sample/normalize',
         'matrixsampling.GeneralMatrices.apply_symmetry', 'matrixsampling.SquareMatrices.apply_symmetry/normalize', 'matrixsampling.IdentityMatrixMultiples.generate_sample',
         'validatorfuncs.NumberRange/is_shape_specification (voluptuous)']
STUBS = ['det_one harnesses: matrixsampling.np.linalg.det -> exact cofactor expansion on object arrays; np.power(x, 1/n) -> exact positive n-th root witness', 'sampling.np / matrixsampling.np -> proxy whose .random is SymRandom (random_sample, rand, randint contracts)', 'sampling.random.choice -> element at a fresh index',
         'voluptuous isinstance shadow (SymReal passes as float, SymInt as int)']
MUST_REACH = ['integer-endpoints-attainable', 'discrete-only-listed-members', 'random-function-within-amplitude']


class ChoiceStub:
    def __init__(self, E):
        self.E = E
        self.n = 0
        self.picked = []

    def choice(self, seq):
        self.n += 1
        k = self.E.fork_int('choice%d' % self.n, 0, len(seq) - 1)
        self.picked.append(k)
        return seq[k]


@contextlib.contextmanager
def rng(E):
    import mitxgraders.sampling as S
    import mitxgraders.matrixsampling as M
    import voluptuous.schema_builder as VS
    import voluptuous.validators as VV
    r = SymRandom(E)
    ch = ChoiceStub(E)
    with shadow(S, np=NpRandomProxy(r), random=ch), shadow(M, np=NpRandomProxy(r)), shadow(VS, isinstance=sym_isinstance), shadow(VV, isinstance=sym_isinstance):
        yield r, ch


def h_real_interval(E, form):
    from mitxgraders import RealInterval
    a, b = E.real('start', -6, 6), E.real('stop', -6, 6)
    with rng(E):
        s = RealInterval([a, b]) if form == 'list' else RealInterval(start=a, stop=b)
        x = s.gen_sample()
        y = s.gen_sample()
    lo, hi = smin(a, b), smax(a, b)
    E.check('real-draw-in-interval-any-order', sand(near_le(lo, x), near_le(x, hi), near_le(lo, y), near_le(y, hi)))
    return 'ok'


DEGENERATE = [-0.9, 10.1, 7 / 3, 0.1, 3.0, 1e-7, -123456.789, 2 ** 0.5, 1 / 3, 5e-324]


def h_degenerate_interval(E, idx):
    """concrete companion in doubles: an interval whose two ends are the same number contains exactly that number - every draw (a fine grid of RNG
    outcomes) returns it, also for ends that are not dyadic; same for the rectangle built from two such intervals"""
    import mitxgraders.sampling as S
    from mitxgraders import RealInterval, ComplexRectangle
    a = DEGENERATE[idx]

    class Grid:
        def __init__(self):
            self.k = 0

        def random_sample(self, size=None):
            self.k += 1
            return ((self.k * 2654435761) % 4096) / 4096.0

        def uniform(self, low=0.0, high=1.0, size=None):
            return low + (high - low) * self.random_sample()

    class P:
        random = Grid()

        def __getattr__(self, n):
            return getattr(np, n)
    with shadow(S, np=P()):
        s = RealInterval([a, a])
        draws = [s.gen_sample() for _ in range(400)]
        r = ComplexRectangle(re=[a, a], im=[-a, -a])
        zs = [r.gen_sample() for _ in range(50)]
    E.check('real-draw-in-interval-any-order', all(d == a for d in draws))
    E.check('complex-draw-in-rectangle', all(z.real == a and z.imag == -a for z in zs))
    return 'ok'


def h_int_range(E):
    from mitxgraders import IntegerRange
    a, b = E.int('start', -4, 4), E.int('stop', -4, 4)
    with rng(E) as (r, ch):
        s = IntegerRange(start=a, stop=b)
        x = s.gen_sample()
    lo, hi = smin(a, b), smax(a, b)
    E.check('integer-draw-in-range-any-order', sand(near_le(lo, x), near_le(x, hi), isinstance(x, (int, SymInt))))
    if E.mode == 'sym':
        E.check_attainable('integer-endpoints-attainable', x == lo, x == hi)
    else:
        # concrete confirmation of the existential obligation: run the real sampler under EVERY outcome the randint contract allows
        import mitxgraders.sampling as S

        class EnumRng:
            """every outcome the documented contracts allow: randint(low, high) -> low .. high-1 in turn; random_sample() -> a fine grid of [0, 1)"""
            def __init__(self):
                self.k = 0
                self.span = None

            def randint(self, low, high=None):
                self.span = (low, high)
                v = low + self.k
                self.k += 1
                return v

            def random_sample(self, size=None):
                self.span = (0, 4096)
                v = (self.k % 4096) / 4096.0
                self.k += 1
                return v

            def uniform(self, low=0.0, high=1.0, size=None):
                return low + (high - low) * self.random_sample()
        er = EnumRng()

        class P:
            random = er

            def __getattr__(self, n):
                return getattr(np, n)
        seen = set()
        with shadow(S, np=P()):
            s2 = IntegerRange(start=a, stop=b)
            seen.add(s2.gen_sample())
            while er.span is not None and er.k < er.span[1] - er.span[0]:
                seen.add(s2.gen_sample())
        E.check('integer-endpoints-attainable', min(a, b) in seen and max(a, b) in seen)
    return 'ok'


def h_complex_rect(E):
    from mitxgraders import ComplexRectangle
    r0, r1, i0, i1 = E.real('re0', -6, 6), E.real('re1', -6, 6), E.real('im0', -6, 6), E.real('im1', -6, 6)
    with rng(E):
        s = ComplexRectangle(re=[r0, r1], im=[i0, i1])
        z = s.gen_sample()
    E.check('complex-draw-is-complex', isinstance(z, (SymComplex, complex)))
    E.check('complex-draw-in-rectangle', sand(near_le(smin(r0, r1), z.real), near_le(z.real, smax(r0, r1)), near_le(smin(i0, i1), z.imag), near_le(z.imag, smax(i0, i1))))
    return 'ok'


def h_complex_sector(E):
    from mitxgraders import ComplexSector
    m0, m1 = E.real('mod0', 0, 6), E.real('mod1', 0, 6)
    a0, a1 = E.real('arg0', -3, 3), E.real('arg1', -3, 3)
    with rng(E) as (r, ch):
        s = ComplexSector(modulus=[m0, m1], argument=[a0, a1])
        z = s.gen_sample()
    if E.mode == 'conc':
        mod = abs(z)
        ang = np.angle(z)
        E.check('sector-modulus-in-range', near_le(min(m0, m1), mod) and near_le(mod, max(m0, m1)))
        return 'ok'
    # polar form: z = m (cos t + i sin t) with m, t the two drawn numbers; with cos^2+sin^2=1 the squared modulus is m^2
    n2 = z.real * z.real + z.imag * z.imag
    lo, hi = smin(m0, m1), smax(m0, m1)
    E.check('sector-modulus-in-range', sand(near_le(lo * lo, n2), near_le(n2, hi * hi)))
    return 'ok'


ARG_RANGES = [(0.5, 2.0), (2.0, 0.5), (3 * math.pi / 4, 5 * math.pi / 4), (math.pi / 2, 3 * math.pi / 2), (-5.0, -3.0), (2.5, 4.0), (6.0, 7.0), (-math.pi, math.pi),
              (3.0, 3.5), (-3.5, -3.0), (10.0, 10.5)]


def h_complex_sector_angle(E, idx):
    """the ANGLE of a ComplexSector draw, for argument ranges anywhere on the real line (also straddling +-pi, beyond 2 pi, reversed, degenerate):
    z = m (cos t + i sin t) with m in the modulus range and t = lo + (hi - lo) u for a draw u in [0, 1] - decided on the polar form with cos / sin as
    uninterpreted functions of the very argument term; the concrete replay checks the angle of the complex number modulo 2 pi"""
    from mitxgraders import ComplexSector
    a0, a1 = ARG_RANGES[idx]
    m0, m1 = E.real('mod0', 0.5, 6), E.real('mod1', 0.5, 6)
    with rng(E) as (r, ch):
        s = ComplexSector(modulus=[m0, m1], argument=[a0, a1])
        z = s.gen_sample()
    lo, hi = min(a0, a1), max(a0, a1)
    if E.mode == 'conc':
        ang = float(np.angle(z))
        off = (ang - lo) % (2 * math.pi)
        E.check('sector-angle-in-range', off <= (hi - lo) + 1e-9 or off >= 2 * math.pi - 1e-9)
        E.check('sector-modulus-in-range', near_le(min(m0, m1), abs(z)) and near_le(abs(z), max(m0, m1)))
        return 'ok'
    draws = [SymReal(z3.Real('rng%d' % k)) for k in range(1, r.n + 1)]
    mlo, mhi = smin(m0, m1), smax(m0, m1)
    cands = []
    for um in draws:
        for ua in draws:
            if um is ua:
                continue
            m = mlo + (mhi - mlo) * um
            t = lift(lo) + lift(hi - lo) * ua.e
            cands.append(sand(z.real == m * SymReal(uf('cos', 1)(t)), z.imag == m * SymReal(uf('sin', 1)(t))))
    E.check('sector-angle-in-range', sor(*cands))
    return 'ok'


def h_discrete(E, n):
    from mitxgraders import DiscreteSet
    from mitxgraders.helpers.calc.math_array import MathArray
    vals = tuple([E.real('m%d' % i, -5, 5) for i in range(n - 1)] + [MathArray([1.0, 2.0])])
    with rng(E) as (r, ch):
        s = DiscreteSet(vals)
        x = s.gen_sample()
    k = ch.picked[0]
    E.check('discrete-only-listed-members', x is s.config[k] and any(x is v for v in vals))
    E.check('discrete-member-%d-drawn' % k, True)
    return k


def h_specific_functions(E, n):
    from mitxgraders import SpecificFunctions
    fs = [(lambda j: (lambda x: x + j))(j) for j in range(n)]
    with rng(E) as (r, ch):
        s = SpecificFunctions(fs)
        f = s.gen_sample()
    E.check('function-list-only-listed-members', any(f is g for g in fs) and f is fs[ch.picked[0]])
    return ch.picked[0]


def _bound_sin(E, expr_list):
    """instantiate -1 <= sin(t) <= 1 for every application of the uninterpreted sin occurring in the given terms"""
    if E.mode != 'sym':
        return
    seen = {}
    todo = [lift(e) for e in expr_list]
    while todo:
        e = todo.pop()
        if e.get_id() in seen:
            continue
        seen[e.get_id()] = e
        if z3.is_app(e):
            if e.decl().name() == 'sin' and e.num_args() == 1:
                E.axiom('-1 <= sin(t) <= 1', z3.And(e >= -1, e <= 1))
            todo.extend(e.children())


def h_random_function(E, input_dim, output_dim, num_terms):
    from mitxgraders import RandomFunction
    from mitxgraders.exceptions import ConfigError
    from mitxgraders.helpers.calc.math_array import MathArray
    center = E.real('center', -3, 3)
    amp = E.real('amplitude', 0, 5, lo_open=True)
    with rng(E):
        s = RandomFunction(input_dim=input_dim, output_dim=output_dim, num_terms=num_terms, center=center, amplitude=amp)
        f = s.gen_sample()
        xs = [E.real('x%d' % k, -4, 4) for k in range(input_dim)]
        y = f(*xs)
        y2 = f(*xs)
        try:
            f(*(xs + [1.0]))
            arity_err = False
        except ConfigError:
            arity_err = True
    E.check('declared-arity-enforced', arity_err and getattr(f, 'nin', None) == input_dim)
    comps = [y] if output_dim == 1 else list(y)
    comps2 = [y2] if output_dim == 1 else list(y2)
    E.check('declared-output-dimension', (output_dim == 1 and not isinstance(y, np.ndarray)) or (isinstance(y, MathArray) and y.shape == (output_dim,)))
    E.check('fixed-once-drawn', sand(*[near_eq(p, q) for p, q in zip(comps, comps2)]))
    _bound_sin(E, comps)
    E.check('random-function-within-amplitude', sand(*[sand(near_le(center - amp, c), near_le(c, center + amp)) for c in comps]))
    return 'ok'


# ------------------------------------------------------------------------------------------------ arrays
def _raw_draws(E, r):
    return None


def h_array(E, kind, shape, opt):
    """real array samplers: shape, realness, structure, parallel to the symmetrised raw draw with the drawn norm in range"""
    import mitxgraders.matrixsampling as M
    from mitxgraders.helpers.calc.math_array import MathArray
    n0, n1 = E.real('norm0', 0.5, 6), E.real('norm1', 0.5, 6)
    with rng(E) as (r, ch):
        if kind == 'vector':
            s = M.RealVectors(shape=shape, norm=[n0, n1])
        elif kind == 'tensor':
            s = M.RealTensors(shape=shape, norm=[n0, n1])
        elif kind == 'matrix':
            s = M.RealMatrices(shape=shape, norm=[n0, n1], triangular=opt)
        else:
            sym, traceless = opt
            s = M.SquareMatrices(dimension=shape[0], symmetry=sym, traceless=traceless, norm=[n0, n1])
        try:
            A = s.gen_sample()
        except ZeroDivisionError:
            raise Abort()      # raw draw of norm zero: excluded measure-zero event
    E.check('is-MathArray-of-declared-shape', isinstance(A, MathArray) and A.shape == tuple(shape))
    ent = {idx: A[idx] for idx in np.ndindex(*A.shape)}
    E.check('entries-real', all(isinstance(v, (SymReal, float, int, np.floating)) for v in ent.values()))
    if kind == 'matrix' and opt == 'upper':
        E.check('triangular-zeros', sand(*[near_eq(ent[(i, j)], 0) for (i, j) in ent if i > j]))
    if kind == 'matrix' and opt == 'lower':
        E.check('triangular-zeros', sand(*[near_eq(ent[(i, j)], 0) for (i, j) in ent if i < j]))
    if kind == 'square':
        sym, traceless = opt
        n = shape[0]
        if sym == 'symmetric':
            E.check('symmetry', sand(*[near_eq(ent[(i, j)], ent[(j, i)]) for i in range(n) for j in range(n)]))
        if sym == 'antisymmetric':
            E.check('symmetry', sand(*[near_eq(ent[(i, j)], -ent[(j, i)]) for i in range(n) for j in range(n)]))
        if sym == 'diagonal':
            E.check('symmetry', sand(*[near_eq(ent[(i, j)], 0) for i in range(n) for j in range(n) if i != j]))
        if traceless:
            E.check('traceless', near_eq(sum(ent[(i, i)] for i in range(n)), 0))
    # norm: the code computes result = W * d / r with r = ||W|| (sqrt witness) and d the drawn norm in [min,max]; so ||result|| = d.
    # decided here in the linear/product form: d in range, and result is W scaled by the common factor d/r
    lo, hi = smin(n0, n1), smax(n0, n1)
    if E.mode == 'sym':
        # the last RNG draw is the norm fraction u: d = start + (stop-start)*u
        u = SymReal(z3.Real('rng%d' % r.n))
        d = lo + (hi - lo) * u
        E.check('drawn-norm-in-range', sand(near_le(lo, d), near_le(d, hi)))
    else:
        nrm = float(np.linalg.norm(np.asarray(A, dtype=float)))
        E.check('drawn-norm-in-range', near_le(min(n0, n1), nrm) and near_le(nrm, max(n0, n1)))
    return 'ok'


class _ComplexNormLinalg:
    """np.linalg for the sampler module: the Frobenius norm of an object array with complex entries is sqrt(sum re^2 + im^2)
    (numpy takes x.dot(x) for object dtype, which is only the norm for real entries)"""

    def __getattr__(self, n):
        return getattr(np.linalg, n)

    def norm(self, a, *args, **kw):
        if isinstance(a, np.ndarray) and a.dtype == object and not args and not kw:
            tot = 0
            for v in a.ravel():
                tot = tot + v.real * v.real + v.imag * v.imag
            return tot.sqrt() if isinstance(tot, SymReal) else float(tot) ** 0.5
        return np.linalg.norm(a, *args, **kw)


class _NpComplexNorm(NpRandomProxy):
    linalg = _ComplexNormLinalg()


def _parts(v):
    return (v.real, v.imag)


def h_complex_array(E, kind, opt):
    """complex array samplers and the (anti)hermitian families, which are complex whatever `complex` says: entries complex as declared
    (some imaginary part can be non-zero - a sat query), hermitian structure, drawn norm in range"""
    import mitxgraders.matrixsampling as M
    import mitxgraders.sampling as S
    from mitxgraders.helpers.calc.math_array import MathArray
    n0, n1 = E.real('norm0', 0.5, 6), E.real('norm1', 0.5, 6)
    with rng(E) as (r, ch):
        with shadow(M, np=_NpComplexNorm(r)):
            if kind == 'vector':
                s = M.ComplexVectors(shape=2, norm=[n0, n1])
                shape = (2,)
            elif kind == 'matrix':
                s = M.ComplexMatrices(shape=(2, 2), norm=[n0, n1], triangular=opt)
                shape = (2, 2)
            else:
                sym, cplx = opt
                kw = {} if cplx is None else dict(complex=cplx)
                s = M.SquareMatrices(dimension=2, symmetry=sym, norm=[n0, n1], **kw)
                shape = (2, 2)
            declared_complex = s.config['complex']
            try:
                A = s.gen_sample()
            except ZeroDivisionError:
                raise Abort()
    E.check('is-MathArray-of-declared-shape', isinstance(A, MathArray) and A.shape == shape)
    E.check('hermitian-families-are-declared-complex', declared_complex is True)
    ent = {idx: A[idx] for idx in np.ndindex(*A.shape)}
    if E.mode == 'sym':
        E.check('entries-complex-as-declared', sand(any(isinstance(v, SymComplex) for v in ent.values()), *[near_eq(v, 0) for v in ent.values() if not isinstance(v, SymComplex)]))
    else:
        E.check('entries-complex-as-declared', np.iscomplexobj(np.asarray(A)))
    if kind == 'square':
        sym, cplx = opt
        for (i, j) in ent:
            (a, b), (c, d) = _parts(ent[(i, j)]), _parts(ent[(j, i)])
            if sym == 'hermitian':
                E.check('symmetry', sand(near_eq(a, c), near_eq(b, -d)))
            if sym == 'antihermitian':
                E.check('symmetry', sand(near_eq(a, -c), near_eq(b, d)))
            if sym == 'symmetric':
                E.check('symmetry', sand(near_eq(a, c), near_eq(b, d)))
        off = ent[(0, 1)]
        if E.mode == 'sym':
            E.check_attainable('imaginary-part-attainable', isinstance(off, SymComplex) and (off.imag > 0.01))
        else:
            # concrete confirmation of the existential obligation: one draw of the real sampler with the real numpy generator
            kw = {} if cplx is None else dict(complex=cplx)
            A2 = np.asarray(M.SquareMatrices(dimension=2, symmetry=sym, **kw).gen_sample())
            E.check('imaginary-part-attainable', np.iscomplexobj(A2) and abs(A2[0, 1].imag) > 0)
    if kind == 'matrix' and opt == 'upper':
        E.check('triangular-zeros', sand(near_eq(ent[(1, 0)].real, 0), near_eq(ent[(1, 0)].imag, 0)))
    lo, hi = smin(n0, n1), smax(n0, n1)
    if E.mode == 'sym':
        u = SymReal(z3.Real('rng%d' % r.n))
        d = lo + (hi - lo) * u
        E.check('drawn-norm-in-range', sand(near_le(lo, d), near_le(d, hi)))
    else:
        nrm = float(np.linalg.norm(np.asarray(A, dtype=complex)))
        E.check('drawn-norm-in-range', near_le(min(n0, n1), nrm) and near_le(nrm, max(n0, n1)))
    return 'ok'


def h_array_norm(E, n):
    """direct norm obligation for an n-vector (non-linear: attempted under the solver cap)"""
    import mitxgraders.matrixsampling as M
    with rng(E) as (r, ch):
        s = M.RealVectors(shape=n, norm=[2, 3])
        try:
            A = s.gen_sample()
        except ZeroDivisionError:
            raise Abort()
    n2 = sum(A[i] * A[i] for i in range(n))
    E.check('norm-in-declared-range', sand(near_le(4, n2), near_le(n2, 9)))
    return 'ok'


def _cofactor_det(a):
    n = a.shape[0]
    if n == 1:
        return a[0, 0]
    if n == 2:
        return a[0, 0] * a[1, 1] - a[0, 1] * a[1, 0]
    tot = 0
    for j in range(n):
        minor = np.array([[a[i, k] for k in range(n) if k != j] for i in range(1, n)], dtype=object)
        term = a[0, j] * _cofactor_det(minor)
        tot = tot + term if j % 2 == 0 else tot - term
    return tot


class _ExactLinalg:
    """np.linalg for the sampler module: det of an object array = exact cofactor expansion (the documented value of det)"""

    def __getattr__(self, n):
        return getattr(np.linalg, n)

    def det(self, a):
        if isinstance(a, np.ndarray) and a.dtype == object:
            return _cofactor_det(a)
        return np.linalg.det(a)


def h_det_one(E, dim, sym):
    """determinant=1 (real families): det(sample) = 1 with np.linalg.det as exact cofactor expansion and x**(1/n) as the exact positive n-th root"""
    import mitxgraders.matrixsampling as M
    from mitxgraders.helpers.calc.math_array import MathArray
    roots = []

    class P(NpRandomProxy):
        linalg = _ExactLinalg()

        def power(self, x, p):
            if is_sym(x):
                if E.mode == 'sym':
                    t = SymReal(E.fresh(z3.RealSort(), 'root'))
                    tn = t
                    for _ in range(dim - 1):
                        tn = tn * t
                    E.assume(z3.And(t.e > 0, tn.e == lift(x)))
                    roots.append(t)
                    return t
            return np.power(x, p)
    with rng(E) as (r, ch):
        draws = [0]
        orig = r.random_sample

        def once(size=None):
            draws[0] += 1
            if draws[0] > 1 and size is not None:
                raise Abort()           # a re-draw after Retry: excluded (the claim is about samples accepted at the first draw)
            return orig(size)
        r.random_sample = once
        with shadow(M, np=P(r)):
            s = M.SquareMatrices(dimension=dim, symmetry=sym, determinant=1)
            try:
                A = s.gen_sample()
            except ZeroDivisionError:
                raise Abort()
    E.check('is-MathArray-of-declared-shape', isinstance(A, MathArray) and A.shape == (dim, dim))
    d = _cofactor_det(np.asarray(A, dtype=object)) if E.mode == 'sym' else float(np.linalg.det(np.asarray(A, dtype=float)))
    E.check('determinant-is-one', near_eq(d, 1) if E.mode == 'sym' else abs(d - 1) < 1e-9)
    return 'ok'


def h_identity_multiples(E, dim):
    import mitxgraders.matrixsampling as M
    from mitxgraders.helpers.calc.math_array import MathArray
    a, b = E.real('start', -6, 6), E.real('stop', -6, 6)
    with rng(E):
        s = M.IdentityMatrixMultiples(dimension=dim, sampler=[a, b])
        A = s.gen_sample()
    E.check('is-MathArray-of-declared-shape', isinstance(A, MathArray) and A.shape == (dim, dim))
    c = A[0, 0]
    E.check('scalar-times-identity', sand(*[near_eq(A[i, j], c if i == j else 0) for i in range(dim) for j in range(dim)]))
    E.check('scalar-in-range', sand(near_le(smin(a, b), c), near_le(c, smax(a, b))))
    return 'ok'


def h_identity_multiples_sampler(E, dim, kind):
    """IdentityMatrixMultiples with every kind of scalar sampler the schema accepts: the multiple is a member of THAT sampling set (a complex one included)"""
    import mitxgraders.matrixsampling as M
    import mitxgraders.sampling as S
    from mitxgraders.helpers.calc.math_array import MathArray
    with rng(E):
        if kind == 'complex-rectangle':
            r0, r1, i0, i1 = E.real('re0', -6, 6), E.real('re1', -6, 6), E.real('im0', 1, 6), E.real('im1', 1, 6)
            sampler = S.ComplexRectangle(re=[r0, r1], im=[i0, i1])
        elif kind == 'integer-range':
            lo, hi = E.int('start', -4, 4), E.int('stop', -4, 4)
            sampler = S.IntegerRange(start=lo, stop=hi)
        else:
            vals = [E.real('member%d' % k, -6, 6) for k in range(2)]
            sampler = S.DiscreteSet(tuple(vals))
        s = M.IdentityMatrixMultiples(dimension=dim, sampler=sampler)
        A = s.gen_sample()
    E.check('is-MathArray-of-declared-shape', isinstance(A, MathArray) and A.shape == (dim, dim))
    c = A[0, 0]
    parts = lambda v: (getattr(v, 'real', v), getattr(v, 'imag', 0))   # noqa
    cr, ci = parts(c)
    E.check('scalar-times-identity', sand(*[sand(near_eq(parts(A[i, j])[0], cr if i == j else 0), near_eq(parts(A[i, j])[1], ci if i == j else 0))
                                            for i in range(dim) for j in range(dim)]))
    if kind == 'complex-rectangle':
        E.check('scalar-in-sampling-set', sand(near_le(smin(r0, r1), cr), near_le(cr, smax(r0, r1)), near_le(smin(i0, i1), ci), near_le(ci, smax(i0, i1))))
    elif kind == 'integer-range':
        E.check('scalar-in-sampling-set', sand(near_le(smin(lo, hi), cr), near_le(cr, smax(lo, hi)), near_eq(ci, 0)))
    else:
        E.check('scalar-in-sampling-set', sand(sor(*[near_eq(cr, v) for v in vals]), near_eq(ci, 0)))
    return 'ok'


def _no_such_family(sym, traceless, det, dim, cplx):
    """the documented list of option combinations that do not exist or cannot be generated (docs/grading_math/sampling.md, SquareMatrices docstring)"""
    cplx = cplx or sym in ('hermitian', 'antihermitian')
    if det == 0:
        if traceless:
            return True
        if sym == 'antisymmetric' and (cplx or dim % 2 == 0):
            return True
    if det == 1:
        if dim == 2 and traceless and ((sym in ('diagonal', 'symmetric') and not cplx) or sym == 'hermitian'):
            return True
        if dim % 2 == 1 and sym in ('antisymmetric', 'antihermitian'):
            return True
    return False


def h_square_rules(E):
    """every combination of symmetry x traceless x determinant x dimension 2..5 x complex: the constructor refuses exactly the documented
    non-existent / unsupported families - so that every accepted combination is one whose draws can satisfy all its constraints"""
    import mitxgraders.matrixsampling as M
    from mitxgraders.exceptions import ConfigError
    sym = E.choice('symmetry', [None, 'diagonal', 'symmetric', 'antisymmetric', 'hermitian', 'antihermitian'])
    traceless = E.fork_bool('traceless')
    det = E.choice('determinant', [None, 0, 1])
    dim = E.fork_int('dimension', 2, 5)
    cplx = E.fork_bool('complex')
    try:
        s = M.SquareMatrices(symmetry=sym, traceless=traceless, determinant=det, dimension=dim, complex=cplx)
    except ConfigError:
        E.check('constructor-refuses-exactly-the-documented-families', _no_such_family(sym, traceless, det, dim, cplx))
        return 'refused'
    E.check('constructor-refuses-exactly-the-documented-families', not _no_such_family(sym, traceless, det, dim, cplx))
    E.check('hermitian-families-are-declared-complex', s.config['complex'] is (cplx or sym in ('hermitian', 'antihermitian')))
    return 'built'


def harnesses(tier):
    hs = []
    T = tier == 'thorough'

    def add(fn, base, params, bounds, **kw):
        hs.append(Harness(pname(base, **{k: ('x'.join(map(str, v)) if isinstance(v, tuple) and v and isinstance(v[0], int) else v) for k, v in params.items()}),
                          fn, tuple(params.values()), FUNCS, bounds, STUBS, **kw))
    for form in ('list', 'kwargs'):
        add(h_real_interval, 'real_interval', dict(form=form), 'ends any reals in [-6,6], any order, degenerate allowed')
    add(h_int_range, 'int_range', {}, 'ends any integers in [-4,4], any order')
    for i in range(len(DEGENERATE)):
        add(h_degenerate_interval, 'degenerate_interval', dict(i=i), 'both ends %r, 400 RNG outcomes' % DEGENERATE[i], validate=False)
    add(h_square_rules, 'square_rules', {}, '6 symmetries x traceless x determinant None/0/1 x dimension 2..5 x complex', validate=False)
    add(h_complex_rect, 'complex_rect', {}, 'ends any reals in [-6,6]')
    add(h_complex_sector, 'complex_sector', {}, 'modulus ends in [0,6], argument ends in [-3,3]')
    for i in range(len(ARG_RANGES)):
        add(h_complex_sector_angle, 'complex_sector_angle', dict(i=i, lo=round(ARG_RANGES[i][0], 3), hi=round(ARG_RANGES[i][1], 3)), 'symbolic modulus range and draws; concrete argument range')
        hs[-1].params = (i,)
    for n in (1, 2, 4):
        add(h_discrete, 'discrete', dict(n=n), 'symbolic members plus one array member')
        add(h_specific_functions, 'specific_functions', dict(n=n), 'function list')
    for i in (1, 2, 3):
        for o in (1, 2):
            for t in (1, 2) + ((3,) if T else ()):
                add(h_random_function, 'random_function', dict(input_dim=i, output_dim=o, num_terms=t), 'any RNG outcome, any evaluation point in [-4,4]^k, center in [-3,3], amplitude in (0,5]')
    for shape in [(2,), (3,)] + ([(4,)] if T else []):
        add(h_array, 'array', dict(kind='vector', shape=shape, opt=None), 'norm ends in [0.5,6]')
    add(h_array, 'array', dict(kind='tensor', shape=(2, 2, 2), opt=None), 'norm ends in [0.5,6]')
    for shape in [(2, 2), (2, 3), (3, 3)]:
        for tri in (None, 'upper', 'lower'):
            add(h_array, 'array', dict(kind='matrix', shape=shape, opt=tri), 'norm ends in [0.5,6]')
    for dim in (2, 3) + ((4,) if T else ()):
        for sym in (None, 'diagonal', 'symmetric', 'antisymmetric'):
            for tl in (False, True):
                if sym == 'antisymmetric' and tl and False:
                    continue
                hs.append(Harness(pname('array', kind='square', dim=dim, symmetry=sym, traceless=tl), h_array, ('square', (dim, dim), (sym, tl)), FUNCS,
                                  'norm ends in [0.5,6]', STUBS))
        add(h_identity_multiples, 'identity_multiples', dict(dim=dim), 'scalar range ends in [-6,6]')
        if dim == 2:
            for kind in ('complex-rectangle', 'integer-range'):
                add(h_identity_multiples_sampler, 'identity_multiples_sampler', dict(dim=dim, kind=kind), 'scalar drawn from that sampling set')
    add(h_complex_array, 'complex_array', dict(kind='vector', opt=None), 'complex 2-vector, norm ends in [0.5,6]')
    for tri in (None, 'upper'):
        add(h_complex_array, 'complex_array', dict(kind='matrix', opt=tri), 'complex 2x2, norm ends in [0.5,6]')
    for sym, cplx in [('hermitian', None), ('hermitian', False), ('hermitian', True), ('antihermitian', None), ('antihermitian', False), ('symmetric', True), (None, True)]:
        hs.append(Harness(pname('complex_array', kind='square', symmetry=sym, complex=cplx), h_complex_array, ('square', (sym, cplx)), FUNCS,
                          '2x2, norm ends in [0.5,6]', STUBS + ['matrixsampling.np.linalg.norm of an object array with complex entries -> sqrt(sum re^2+im^2)']))
    for dim, sym in [(2, 'diagonal'), (3, 'diagonal'), (2, 'symmetric'), (2, None)] + ([(3, 'symmetric'), (3, None)] if T else []):
        add(h_det_one, 'det_one', dict(dim=dim, symmetry=sym), 'determinant=1, real family, first draw; exact cofactor determinant', expect_inconclusive=True)
    if T:
        add(h_array_norm, 'array_norm', dict(n=2), '2-vector, norm in [2,3] (NRA attempt)', expect_inconclusive=True)
    return hs
