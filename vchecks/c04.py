"""C04 - a formula is marked correct exactly when enough samples agree within tolerance."""
import numpy as np
from fractions import Fraction

from symx import Harness, pname, sand, sor, simplies, siff, near_le, near_eq, snot, sif, smax, is_sym, SymBool
from symx.stubs import make_sym_sampler, shadow, NpObjProxy, wellformed

PROPERTY = 'C04'
EXPLANATION = ('within_tolerance, EqualityComparer, MathMixin.compare_evaluations / consolidate_results and the whole FormulaGrader / NumericalGrader / '
               'MatrixGrader call (sampling -> real pyparsing parse -> MathExpression.eval -> comparer -> consolidation) run with the sampled '
               'values, the perturbations, the tolerance and the answer credit as z3 reals (author-defined sampling sets hand out fresh symbolic '
               'reals). z3 decides on every path: result is True exactly when |expected - student| <= t (resp. <= p * |expected| with the code\'s '
               'own double p; Frobenius norm for arrays), the grade is the answer\'s credit exactly when #failing samples <= failable_evals '
               '(single-sample graders tolerate none) and 0 otherwise; algebraically identical rewritings always earn full credit and formulas '
               'off by more than the tolerance on the whole sampling box never earn any.'
               ' Percentage tolerances are read by the oracle itself (p times one hundredth), including percentages with several decimals.')
ASSUMPTIONS = ['exact-real arithmetic: the verdict is decided AT the tolerance boundary (no guard band needed); IEEE rounding outside the claim',
               'samples are arbitrary reals in the declared intervals; infinite values are concrete +-inf',
               'complex samples are not modelled (SymComplex not built): complex answers are outside this check']
BOUNDS = {'quick': 'samples <= 3, failable_evals in 0..2, absolute tolerance symbolic in [0,2] and percentage tolerances from a list; vectors of 2-3 and a '
                   '2x2 matrix of symbolic entries; consolidate_results with n <= 4 results',
          'thorough': 'samples <= 4, failable_evals 0..3, consolidate_results n <= 6, 3x3 matrices'}
OUTSIDE = ['IEEE rounding / guard band', 'complex-valued samples and answers', 'more samples than the bound']
DEADLINE = {'quick': 600, 'thorough': 1500}
FUNCS = ['mathfuncs.within_tolerance', 'mathfuncs.percentage_as_number', 'comparers.EqualityComparer.__call__', 'MathMixin.compare_evaluations',
         'MathMixin.consolidate_results', 'ItemGrader.standardize_cfn_return', 'FormulaGrader.raw_check/gen_evaluations', 'MathMixin.check_math_response',
         'sampling.gen_symbols_samples', 'expressions.MathParser.parse', 'expressions.MathExpression.eval', 'expressions.evaluator',
         'MatrixGrader.check_response', 'ItemGrader.check', 'AbstractGrader.__call__']
STUBS = ['SymSampler (author-defined VariableSamplingSet returning fresh symbolic reals)', 'expressions.np proxy (isinf/isnan elementwise on object arrays)']
PCTS = ['0%', '0.01%', '5%', '10%', '250%', '0.00004%', '0.00016%', '1e-7%', '33.333333%']


def pct_fraction(pct):
    """the documented meaning of 'p%': p times one hundredth, in double arithmetic"""
    return float(pct.strip()[:-1]) * 0.01


def sabs(x):
    return abs(x)


# ------------------------------------------------------------------------------------------------ O1 within_tolerance
def h_wt_abs(E):
    from mitxgraders.helpers.calc.mathfuncs import within_tolerance
    x, y = E.real('x'), E.real('y')
    t = E.real('tol', 0, None)
    r = within_tolerance(x, y, t)
    E.check('abs-tolerance-iff', siff(r, near_le(sabs(x - y), t)))
    return 'ok'


def h_wt_pct(E, pct):
    from mitxgraders.helpers.calc.mathfuncs import within_tolerance
    x, y = E.real('x'), E.real('y')
    p = pct_fraction(pct)
    r = within_tolerance(x, y, pct)
    E.check('pct-tolerance-relative-to-expected', siff(r, near_le(sabs(x - y), sabs(x) * p)))
    return 'ok'


def h_wt_inf(E, which):
    from mitxgraders.helpers.calc.mathfuncs import within_tolerance
    inf = float('inf')
    v = E.real('v')
    t = E.real('tol', 0, None)
    xs = {'x=+inf': (inf, v), 'x=-inf': (-inf, v), 'y=+inf': (v, inf), 'y=-inf': (v, -inf)}[which]
    r = within_tolerance(xs[0], xs[1], t)
    E.check('infinity-never-matches-finite', siff(r, False))
    r2 = within_tolerance(xs[0], xs[1], '250%')
    E.check('infinity-never-matches-finite-pct', siff(r2, False))
    E.check('same-infinity-matches', bool(within_tolerance(inf, inf, 0)) and bool(within_tolerance(-inf, -inf, '1%'))
            and not bool(within_tolerance(inf, -inf, 1e9)))
    return 'ok'


def _symarr(E, name, shape):
    from mitxgraders.helpers.calc.math_array import MathArray
    a = np.empty(shape, dtype=object)
    for idx in np.ndindex(*shape):
        a[idx] = E.real('%s%s' % (name, ''.join(map(str, idx))), -10, 10)
    if E.mode == 'conc':
        a = a.astype(float)
    return MathArray(a)


def h_wt_array(E, shape, pct):
    from mitxgraders.helpers.calc.mathfuncs import within_tolerance, percentage_as_number
    X = _symarr(E, 'x', shape)
    Y = _symarr(E, 'y', shape)
    d2 = sum((X[idx] - Y[idx]) * (X[idx] - Y[idx]) for idx in np.ndindex(*shape))
    if pct is None:
        t = E.real('tol', 0, 10)
        r = within_tolerance(X, Y, t)
        E.check('frobenius-abs-iff', siff(r, near_le(d2, t * t)))
    else:
        p = percentage_as_number(pct)
        r = within_tolerance(X, Y, pct)
        n2 = sum(X[idx] * X[idx] for idx in np.ndindex(*shape))
        E.check('frobenius-pct-iff', siff(r, near_le(d2, n2 * (Fraction(p) ** 2))))
    return 'ok'


# ------------------------------------------------------------------------------------------------ O2 consolidate_results
def h_consolidate(E, n):
    from mitxgraders.helpers.math_helpers import MathMixin
    from mitxgraders.baseclasses import ItemGrader
    a = E.real('a', 0, 1)
    fe = E.fork_int('failable', 0, n)
    oks = [E.fork_bool('ok%d' % i) for i in range(n)]
    results = []
    for i in range(n):
        r = ItemGrader.standardize_cfn_return(oks[i])
        r['grade_decimal'] *= a
        r['tag'] = i
        results.append(r)
    answer = {'ok': ItemGrader.grade_decimal_to_ok(a), 'grade_decimal': a, 'msg': 'M', 'expect': 'ignored'}
    out = MathMixin.consolidate_results(results, answer, fe)
    fails = sum(1 for o in oks if not o)
    accept = fails <= fe and (n > 1 or fails == 0)
    E.check('accept-iff-failures-within-failable_evals', (out.get('msg') == 'M') == accept)
    if accept:
        E.check('accepted-carries-answer-credit', sand(near_eq(out['grade_decimal'], a), set(out) == {'ok', 'grade_decimal', 'msg'}))
    else:
        E.check('rejected-is-zero', near_eq(out['grade_decimal'], 0) and out['ok'] is False)
    return [accept]


# ------------------------------------------------------------------------------------------------ O3 end to end
def _count_ok(E, fails, samples, failable, grade, a):
    """grade == a iff #fails <= failable (and samples>1 or none), else 0; `fails` are symbolic booleans"""
    nf = sum(sif(f, 1, 0) for f in fails)
    accept = nf <= failable
    if samples == 1:
        accept = sand(*[snot(f) for f in fails])
    E.check('credit-iff-enough-samples-agree', sand(simplies(accept, near_eq(grade, a)), simplies(snot(accept), near_eq(grade, 0))))


def h_formula(E, form, samples, failable, tolkind):
    from mitxgraders import FormulaGrader
    from mitxgraders.helpers.calc.mathfuncs import percentage_as_number
    SX = make_sym_sampler(E, 'x', 1, 5)
    SY = make_sym_sampler(E, 'y', -3, 3)
    SD = make_sym_sampler(E, 'd', -1, 1)
    a = E.real('a', 0, 1, lo_open=True)
    tol = E.real('tol', 0, 2) if tolkind == 'abs' else tolkind
    ans, stu = {'add': ('2*x+y', '2*x + y+d'), 'poly': ('x^2+y', 'y + x*x + d'), 'mul': ('2*x+y', '(2*x+y)*(1+d)'), 'neg': ('-x', 'd-x')}[form]
    g = FormulaGrader(answers={'expect': ans, 'grade_decimal': a}, variables=['x', 'y', 'd'], sample_from={'x': SX(), 'y': SY(), 'd': SD()},
                      samples=samples, failable_evals=failable, tolerance=tol)
    r = g(None, stu)
    s_ok, c_ok = wellformed(r)
    E.check('wellformed', sand(s_ok, c_ok))
    xs, ys, ds = SX.draws, SY.draws, SD.draws
    E.check('one-draw-per-variable-per-sample', len(xs) == len(ys) == len(ds) == samples)
    fails = []
    for i in range(samples):
        exp = {'add': 2 * xs[i] + ys[i], 'poly': xs[i] * xs[i] + ys[i], 'mul': 2 * xs[i] + ys[i], 'neg': -xs[i]}[form]
        diff = exp * ds[i] if form == 'mul' else ds[i]
        bound = tol if tolkind == 'abs' else sabs(exp) * Fraction(pct_fraction(tolkind))      # the oracle's own reading of 'p%'
        fails.append(snot(near_le(sabs(diff), bound)))
    _count_ok(E, fails, samples, failable, r['grade_decimal'], a)
    return str(r['ok'])


def h_numerical(E, tolkind):
    from mitxgraders import NumericalGrader
    from mitxgraders.helpers.calc.mathfuncs import percentage_as_number
    c = E.real('c', -4, 4)
    d = E.real('d', -1, 1)
    a = E.real('a', 0, 1, lo_open=True)
    tol = E.real('tol', 0, 2) if tolkind == 'abs' else tolkind
    g = NumericalGrader(answers={'expect': '3*c', 'grade_decimal': a}, user_constants={'c': c, 'd': d}, tolerance=tol)
    r = g(None, 'c+c+c+d')
    bound = tol if tolkind == 'abs' else sabs(3 * c) * Fraction(pct_fraction(tolkind))
    _count_ok(E, [snot(near_le(sabs(d), bound))], 1, 0, r['grade_decimal'], a)
    return str(r['ok'])


def h_matrix(E, shape, tolkind):
    from mitxgraders import MatrixGrader
    from mitxgraders.sampling import VariableSamplingSet
    from mitxgraders.helpers.calc.mathfuncs import percentage_as_number
    import mitxgraders.helpers.calc.expressions as X
    import voluptuous

    draws = {'A': [], 'D': []}

    def mk(name):
        class ArrSampler(VariableSamplingSet):
            schema_config = voluptuous.Schema({})

            def gen_sample(self):
                arr = _symarr(E, '%s%d_' % (name, len(draws[name])), shape)
                draws[name].append(arr)
                return arr
        return ArrSampler()
    a = E.real('a', 0, 1, lo_open=True)
    tol = E.real('tol', 0, 2) if tolkind == 'abs' else tolkind
    with shadow(X, np=NpObjProxy()):
        g = MatrixGrader(answers={'expect': 'A', 'grade_decimal': a}, variables=['A', 'D'], sample_from={'A': mk('A'), 'D': mk('D')},
                         samples=2, failable_evals=0, tolerance=tol, max_array_dim=2)
        r = g(None, 'A+D')
    fails = []
    for i in range(2):
        A, D = draws['A'][i], draws['D'][i]
        d2 = sum(D[idx] * D[idx] for idx in np.ndindex(*shape))
        if tolkind == 'abs':
            fails.append(snot(near_le(d2, tol * tol)))
        else:
            p = percentage_as_number(tolkind)
            fails.append(snot(near_le(d2, sum(A[idx] * A[idx] for idx in np.ndindex(*shape)) * (Fraction(p) ** 2))))
    _count_ok(E, fails, 2, 0, r['grade_decimal'], a)
    return str(r['ok'])


REWRITES = [('x*y+x', 'x*(y+1)'), ('x*y+x', '(y + 1) * x'), ('x+y', 'y+x+0'), ('x*y', '1*y*x'), ('x/y+1', '(x+y)/y'), ('x^2-y^2', '(x-y)*(x+y)'),
            ('x^2', 'x*x'), ('2*x', 'x+x'), ('x-(y-x)', '2*x-y'), ('-x^2', '-(x*x)'), ('x/2/y', 'x/(2*y)'), ('(x+y)^2', 'x^2+2*x*y+y^2'),
            ('x*y+x', ' x * ( y + 1 ) '), ('x||y', 'x*y/(x+y)'), ('1e1*x', '10*x'), ('50%*x', 'x/2')]
OFF = [('x*y+x', 'x*(y+1)+1'), ('x+y', 'x+y-0.6'), ('x^2', 'x^2+x'), ('2*x', '3*x'), ('x', '-x')]


def h_rewrite(E, idx, off):
    from mitxgraders import FormulaGrader
    SX = make_sym_sampler(E, 'x', 1, 5)
    SY = make_sym_sampler(E, 'y', 1, 3)
    ans, stu = (OFF if off else REWRITES)[idx]
    a = E.real('a', 0, 1, lo_open=True)
    g = FormulaGrader(answers={'expect': ans, 'grade_decimal': a}, variables=['x', 'y'], sample_from={'x': SX(), 'y': SY()}, samples=2,
                      tolerance=0.5 if off else 0)
    r = g(None, stu)
    if off:
        E.check('off-by-more-than-tolerance-never-credited', near_eq(r['grade_decimal'], 0) and r['ok'] is False)
    else:
        E.check('identical-rewrite-full-credit', near_eq(r['grade_decimal'], a))
    return str(r['ok'])


def harnesses(tier):
    hs = []
    T = tier == 'thorough'

    def add(fn, base, params, bounds, **kw):
        hs.append(Harness(pname(base, **params), fn, tuple(params.values()), FUNCS, bounds, STUBS, **kw))
    add(h_wt_abs, 'wt_abs', {}, 'any reals x,y, any tol>=0')
    for p in PCTS:
        add(h_wt_pct, 'wt_pct', dict(pct=p), 'any reals x,y')
    for w in ('x=+inf', 'x=-inf', 'y=+inf', 'y=-inf'):
        add(h_wt_inf, 'wt_inf', dict(which=w), 'any finite real against an infinity')
    for shape in [(2,), (3,), (2, 2)] + ([(3, 3), (2, 3)] if T else []):
        add(h_wt_array, 'wt_array', dict(shape='x'.join(map(str, shape)), pct=None), 'entries in [-10,10]', )
        hs[-1].params = (shape, None)
        add(h_wt_array, 'wt_array', dict(shape='x'.join(map(str, shape)), pct='5%'), 'entries in [-10,10]')
        hs[-1].params = (shape, '5%')
    for n in (1, 2, 3, 4) + ((5, 6) if T else ()):
        add(h_consolidate, 'consolidate', dict(n=n), 'all ok patterns, failable in 0..n')
    for form in ('add', 'poly', 'mul', 'neg'):
        for samples, failable in [(1, 0), (2, 0), (3, 1), (3, 2), (2, 2), (2, 3)] + ([(4, 1), (4, 3)] if T else []):
            add(h_formula, 'formula', dict(form=form, samples=samples, failable=failable, tol='abs'), 'symbolic samples, tol in [0,2]')
        add(h_formula, 'formula', dict(form=form, samples=2, failable=0, tol='5%'), 'symbolic samples')
        add(h_formula, 'formula', dict(form=form, samples=2, failable=1, tol='0%'), 'symbolic samples')
    for pct in ('0.125%', '0.004%', '12.3456%', ' 2.5 %'):
        add(h_formula, 'formula', dict(form='add', samples=1, failable=0, tol=pct), 'symbolic samples; percentage with several decimals')
    for tk in ('abs', '5%', '0%', '0.125%', '0.004%'):
        add(h_numerical, 'numerical', dict(tol=tk), 'symbolic constants')
    for shape, tk in [((2,), 'abs'), ((2,), '10%'), ((2, 2), 'abs')] + ([((2, 2), '10%'), ((3,), '10%')] if T else []):
        if True:
            add(h_matrix, 'matrix', dict(shape='x'.join(map(str, shape)), tol=tk), 'array-valued symbolic variables')
            hs[-1].params = (shape, tk)
    for i in range(len(REWRITES)):
        add(h_rewrite, 'rewrite', dict(i=i, off=False), '%s vs %s' % REWRITES[i])
    for i in range(len(OFF)):
        add(h_rewrite, 'rewrite', dict(i=i, off=True), '%s vs %s' % OFF[i])
    return hs
