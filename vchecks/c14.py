"""C14 - array arithmetic follows strict linear-algebra shape rules and values."""
import itertools
import math

import numpy as np

from symx import Harness, pname, sand, sor, simplies, siff, near_le, near_eq, snot, is_sym, SymReal
from symx.stubs import shadow, NpObjProxy

PROPERTY = 'C14'
EXPLANATION = ('MathArray operators (direct, reflected and in-place) and the formula evaluator with array-valued variables run on operands whose every '
               'entry (and every scalar) is a z3 real. For each operand-shape pair and operator an independent index-loop oracle states what linear '
               'algebra prescribes: either a value of a definite shape (elementwise sum/difference of equal shapes, scaling, dot, matrix-vector, '
               'vector-matrix, matrix-matrix products, division by scalars, non-negative integer powers of square matrices) or a student-facing '
               'error. z3 decides entrywise equality for all entry values; "scalar + array" is decided symbolically (allowed iff the scalar is 0).')
ASSUMPTIONS = ['entries are arbitrary reals (complex entries outside the claim)', 'arrays have more than one element (the property\'s shape universe)',
               'exponents are concrete (-2..3, 2.0, 0.5); symbolic matrices are raised to non-negative powers only (inverse is LAPACK)']
BOUNDS = {'quick': 'shapes {scalar, vectors 2,3, matrices 1x2,2x1,2x2,2x3,3x2,3x3, tensor 2x2x2} pairwise x + - * / ; powers -2..3 and non-integer; '
                   'direct/reflected/in-place forms and formula strings; plus vectors of length 4 and 3x4/4x3/4x4 matrices', 'thorough': 'same plus 5-vectors, 2x4, 4x2, tensor 2x3x2'}
OUTSIDE = ['negative powers of symbolic matrices (np.linalg.inv is LAPACK; checked on concrete matrices only)', 'array literals with symbolic entries '
           '(the evaluator rejects object dtype; literals are concrete)', 'complex entries', 'IEEE rounding']
DEADLINE = {'quick': 600, 'thorough': 1500}
FUNCS = ['MathArray.__add__/__radd__/__sub__/__rsub__/__mul__/__rmul__/__truediv__/__rtruediv__/__pow__/__rpow__/__iadd__/...', 'math_array.is_number_zero',
         'MathArray.enable_negative_powers', 'robust_pow.robust_pow', 'MathExpression.eval_product/eval_sum/eval_power/eval_array', 'expressions.evaluator']
STUBS = ['expressions.np proxy (isinf/isnan elementwise on object arrays)']

SHAPES_Q = [(), (2,), (3,), (1, 2), (2, 1), (2, 2), (2, 3), (3, 2), (3, 3), (2, 2, 2)]
SHAPES_T = SHAPES_Q + [(4,), (3, 4), (4, 3), (4, 4)]


def mk(E, name, shape):
    from mitxgraders.helpers.calc.math_array import MathArray
    if shape == ():
        return E.real(name, -4, 4)
    a = np.empty(shape, dtype=object)
    for idx in np.ndindex(*shape):
        a[idx] = E.real('%s%s' % (name, ''.join(map(str, idx))), -4, 4)
    if E.mode == 'conc':
        a = a.astype(float)
    return MathArray(a)


def shape_of(x):
    return () if not isinstance(x, np.ndarray) else x.shape


def entries_eq(got, want):
    """got: result of the implementation, want: nested list/number from the oracle"""
    from mitxgraders.helpers.calc.math_array import MathArray
    wa = np.array(want, dtype=object)
    if wa.shape == ():
        if isinstance(got, np.ndarray):
            return False
        return near_eq(got, wa.item())
    if not isinstance(got, MathArray) or got.shape != wa.shape:
        return False
    return sand(*[near_eq(got[idx], wa[idx]) for idx in np.ndindex(*wa.shape)])


def lst(x):
    return x.tolist() if isinstance(x, np.ndarray) else x


# ------------------------------------------------------------------------------------------------ oracle
def oracle(op, A, B):
    """returns ('value', nested) | ('error',) | ('zero-only', nested_if_zero): index-loop linear algebra on nested lists"""
    sa, sb = shape_of(A), shape_of(B)
    a, b = lst(A), lst(B)
    if op in '+-':
        sgn = 1 if op == '+' else -1
        if sa == () and sb == ():
            return ('value', a + sgn * b)
        if sa == ():
            return ('zero-only', a, emap(b, lambda y: sgn * y))
        if sb == ():
            return ('zero-only', b, a)
        if sa != sb:
            return ('error',)
        return ('value', ezip(a, b, lambda x, y: x + sgn * y))
    if op == '*':
        if sa == () and sb == ():
            return ('value', a * b)
        if sa == ():
            return ('value', emap(b, lambda y: a * y))
        if sb == ():
            return ('value', emap(a, lambda x: x * b))
        if len(sa) > 2 or len(sb) > 2:
            return ('error',)
        if len(sa) == 1 and len(sb) == 1:
            return ('value', sum(x * y for x, y in zip(a, b))) if sa == sb else ('error',)
        if len(sa) == 2 and len(sb) == 1:
            if sa[1] != sb[0]:
                return ('error',)
            res = [sum(a[i][k] * b[k] for k in range(sa[1])) for i in range(sa[0])]
            return ('value', res[0] if len(res) == 1 else res)      # one-element results are numbers (documented collapse)
        if len(sa) == 1 and len(sb) == 2:
            if sa[0] != sb[0]:
                return ('error',)
            res = [sum(a[k] * b[k][j] for k in range(sa[0])) for j in range(sb[1])]
            return ('value', res[0] if len(res) == 1 else res)
        if sa[1] != sb[0]:
            return ('error',)
        res = [[sum(a[i][k] * b[k][j] for k in range(sa[1])) for j in range(sb[1])] for i in range(sa[0])]
        if sa[0] == 1 and sb[1] == 1:
            return ('value', res[0][0])
        return ('value', res)
    if op == '/':
        if sb != ():
            return ('error',)
        if sa == ():
            return ('value', a / b)
        return ('value', emap(a, lambda x: x / b))
    raise ValueError(op)


def emap(x, f):
    return [emap(y, f) for y in x] if isinstance(x, list) else f(x)


def ezip(x, y, f):
    return [ezip(p, q, f) for p, q in zip(x, y)] if isinstance(x, list) else f(x, y)


def apply_op(op, A, B, form):
    if form == 'inplace':
        X = A
        if op == '+':
            X += B
        elif op == '-':
            X -= B
        elif op == '*':
            X *= B
        else:
            X /= B
        return X
    return {'+': lambda: A + B, '-': lambda: A - B, '*': lambda: A * B, '/': lambda: A / B}[op]()


def h_binop(E, op, sa, sb, form):
    from mitxgraders.exceptions import StudentFacingError
    from mitxgraders.helpers.calc.math_array import MathArray
    import mitxgraders.helpers.calc.expressions as X
    A = mk(E, 'a', sa)
    B = mk(E, 'b', sb)
    if op == '/' and sb == ():
        E.assume(B != 0) if E.mode == 'sym' else None
        if E.mode == 'conc' and B == 0:
            return 'skip'
    try:
        want = oracle(op, A, B)
    except ZeroDivisionError:
        return 'skip'
    A0 = A.copy() if isinstance(A, np.ndarray) else A
    try:
        if form == 'string':
            with shadow(X, np=NpObjProxy()):
                got, _ = X.evaluator('A %s B' % op, {'A': A, 'B': B}, X.DEFAULT_FUNCTIONS, X.DEFAULT_SUFFIXES, max_array_dim=3)
        else:
            got = apply_op(op, A, B, form)
        err = None
    except StudentFacingError as e:
        got, err = None, type(e).__name__
    if isinstance(A, np.ndarray):
        E.check('operand-not-mutated', all(A[idx] is A0[idx] or (not is_sym(A[idx]) and A[idx] == A0[idx]) for idx in np.ndindex(*A.shape)))
    if want[0] == 'error':
        E.check('shape-violation-is-student-facing-error', err is not None)
        return err
    if want[0] == 'zero-only':
        s, res = want[1], want[2]
        # allowed iff the scalar is exactly 0; then the array is returned unchanged (negated for 0 - array)
        if err is not None:
            E.check('nonzero-scalar-plus-array-refused', snot(near_eq(s, 0)))
            return err
        E.check('scalar-plus-array-only-for-zero', near_eq(s, 0))
        E.check('value-is-linear-algebra', entries_eq(got, res))
        return 'value'
    E.check('valid-operation-not-refused', err is None)
    if err is None:
        E.check('value-is-linear-algebra', entries_eq(got, want[1]))
    return 'value'


def matpow(a, k, n):
    res = [[1 if i == j else 0 for j in range(n)] for i in range(n)]
    for _ in range(k):
        res = [[sum(res[i][t] * a[t][j] for t in range(n)) for j in range(n)] for i in range(n)]
    return res


def h_pow(E, shape, expo, form):
    from mitxgraders.exceptions import StudentFacingError
    import mitxgraders.helpers.calc.expressions as X
    A = mk(E, 'a', shape)
    square = len(shape) == 2 and shape[0] == shape[1]
    integer_like = float(expo).is_integer()
    try:
        if form == 'string':
            with shadow(X, np=NpObjProxy()):
                got, _ = X.evaluator('A^(%s)' % expo if expo >= 0 else 'A^%s' % expo, {'A': A}, X.DEFAULT_FUNCTIONS, X.DEFAULT_SUFFIXES, max_array_dim=3)
        elif form == 'inplace':
            got = A
            got **= expo
        else:
            got = A ** expo
        err = None
    except StudentFacingError as e:
        got, err = None, type(e).__name__
    if not square or not integer_like:
        E.check('invalid-power-is-student-facing-error', err is not None)
        return err
    E.check('valid-operation-not-refused', err is None)
    if err is None:
        E.check('value-is-linear-algebra', entries_eq(got, matpow(lst(A), int(expo), shape[0])))
    return 'value'


def h_rpow(E, shape):
    from mitxgraders.exceptions import StudentFacingError
    A = mk(E, 'a', shape)
    s = E.real('s', 1, 3)
    outs = []
    for f in (lambda: s ** A, lambda: 2 ** A, lambda: A ** A):
        try:
            f()
            outs.append(None)
        except StudentFacingError as e:
            outs.append(type(e).__name__)
    E.check('array-exponent-is-student-facing-error', all(o is not None for o in outs))
    return outs


CONCRETE = {'regular': [[2.0, 1.0], [1.0, 1.0]], 'singular': [[1.0, 2.0], [2.0, 4.0]], 'diag3': [[2.0, 0, 0], [0, 4.0, 0], [0, 0, 0.5]]}


def h_negpow(E, which, expo, enabled):
    """negative powers = inverses (concrete matrices: LAPACK cannot be encoded), refused while disabled"""
    from mitxgraders.helpers.calc.math_array import MathArray
    from mitxgraders.helpers.calc.exceptions import MathArrayError
    import mitxgraders.helpers.calc.expressions as X
    M = MathArray(CONCRETE[which])
    s = E.real('s', 1, 2)      # symbolic bystander: multiplies the result so the path is not trivial
    try:
        if enabled:
            got = M ** expo
        else:
            with MathArray.enable_negative_powers(False):
                got = M ** expo
        err = None
    except MathArrayError as e:
        got, err = None, str(e)
    E.check('switch-restored', MathArray._negative_powers is True)
    if not enabled:
        E.check('negative-power-refused-while-disabled', err is not None and 'disabled' in err)
        return 'refused'
    if which == 'singular':
        E.check('singular-inverse-is-student-facing-error', err is not None)
        return 'singular'
    n = len(CONCRETE[which])
    prod = got
    for _ in range(-expo):
        prod = prod * M
    ident = all(abs(prod[i, j] - (1.0 if i == j else 0.0)) < 1e-9 for i in range(n) for j in range(n))
    E.check('negative-power-is-inverse', err is None and ident)
    got2 = s * got
    E.check('value-is-linear-algebra', entries_eq(got2, [[s * float(got[i, j]) for j in range(n)] for i in range(n)]))
    return 'value'


FUNCTION_SCALARS = ['v/i', 'A/(1+i)', 'v/(2*i)', 'v*i', 'i*A', 'v/(x+0*i)', 'A/i^2', 'v^0.5', 'A^0.5', 'A^(1/2)', 'v^(2^-1)', 'A^(3-2.5)', '[[1,2,3],[4,5,6]]^0.5', 'A^1.5', 'A^0.25', 'A^-0.5', 'v^(1/2)', '(A*A)^0.5', 'A^(0.5+0)', 'cos(0)+[1,2,3]', '[1,2,3]+cos(0)', 'abs(x)/v', 'sqrt(4)^A', 'exp(0)-A', 'A-exp(0)', 'norm(v)+v', 'max(1,2)+v', 're(3)/v', 'kronecker(1,1)+v', 'x+v', 'y+v', '2/A',
                    'trace(A)+A', 'det(A)^v', 'cos(0)*v', 'v*cos(0)', 'v/cos(0)', 'A^cos(0)', 'cos(0)+0*v', 'abs(x)^2*v', 'A*sqrt(4)', '0*cos(0)+v', 'sin(0)+v']
FUNCTION_SCALARS_OK = {'v/i', 'A/(1+i)', 'v/(2*i)', 'v*i', 'i*A', 'v/(x+0*i)', 'A/i^2', 'cos(0)*v', 'v*cos(0)', 'v/cos(0)', 'A^cos(0)', 'abs(x)^2*v', 'A*sqrt(4)', '0*cos(0)+v', 'sin(0)+v'}


def h_function_scalar(E, idx):
    """a scalar that is the VALUE of a function call (a numpy scalar inside the evaluator) or a numpy-typed variable obeys the same rules as a literal:
    non-zero scalar + array, scalar / array, scalar ^ array are student-facing errors, never a broadcast result; scaling works"""
    from mitxgraders.helpers.calc.expressions import evaluator
    from mitxgraders import MatrixGrader
    from mitxgraders.helpers.calc.math_array import MathArray
    from mitxgraders.exceptions import StudentFacingError
    expr = FUNCTION_SCALARS[idx]
    env = {'x': -2.0, 'y': np.float64(1.5), 'v': MathArray([1.0, 2.0, 3.0]), 'A': MathArray([[1.0, 2.0], [3.0, 5.0]]), 'i': 1j, 'pi': math.pi}
    try:
        val, _ = evaluator(expr, env, MatrixGrader.default_functions, {}, max_array_dim=2)
    except StudentFacingError as e:
        E.check('shape-violation-is-student-facing-error', expr not in FUNCTION_SCALARS_OK)
        return type(e).__name__
    E.check('shape-violation-is-student-facing-error', expr in FUNCTION_SCALARS_OK)
    if expr in ('v/i', 'v/(2*i)', 'A/(1+i)'):
        want = {'v/i': np.array([1.0, 2.0, 3.0]) / 1j, 'v/(2*i)': np.array([1.0, 2.0, 3.0]) / 2j, 'A/(1+i)': np.array([[1.0, 2.0], [3.0, 5.0]]) / (1 + 1j)}[expr]
        E.check('value-is-linear-algebra', np.allclose(np.asarray(val, dtype=complex), want, rtol=1e-12, atol=0))
    return 'value'


def h_triple(E, expr, n):
    import mitxgraders.helpers.calc.expressions as X
    from mitxgraders.helpers.calc.exceptions import CalcError
    env = {k: mk(E, k, (n,)) for k in 'uvw'}
    env['A'] = mk(E, 'A', (n, n))
    with shadow(X, np=NpObjProxy()):
        try:
            got, _ = X.evaluator(expr, env, X.DEFAULT_FUNCTIONS, X.DEFAULT_SUFFIXES, max_array_dim=2)
            err = None
        except CalcError as e:
            got, err = None, str(e)
    u, v, w, A = (lst(env[k]) for k in 'uvwA')
    dot = lambda p, q: sum(x * y for x, y in zip(p, q))   # noqa
    if expr in ('u*v*w', 'u*v*w*u', 'A*u*v*w', 'u*v/2*w'):
        E.check('triple-vector-product-refused', err is not None and 'ambiguous' in err)
        return 'refused'
    want = {'u*(v*w)': [x * dot(v, w) for x in u], '(u*v)*w': [x * dot(u, v) for x in w], 'u*A*v': dot([sum(u[k] * A[k][j] for k in range(n)) for j in range(n)], v),
            'u*v': dot(u, v), '2*u*v': 2 * dot(u, v), 'u*v*2': dot(u, v) * 2}[expr]
    E.check('valid-operation-not-refused', err is None)
    if err is None:
        E.check('value-is-linear-algebra', entries_eq(got, want))
    return 'value'


def harnesses(tier):
    hs = []
    T = tier == 'thorough'
    shapes = (SHAPES_T + [(5,), (2, 4), (4, 2), (2, 3, 2)]) if T else SHAPES_T

    def add(fn, base, params, bounds, **kw):
        hs.append(Harness(pname(base, **{k: (('x'.join(map(str, v)) or 'scalar') if isinstance(v, tuple) else v) for k, v in params.items()}),
                          fn, tuple(params.values()), FUNCS, bounds, STUBS, **kw))
    for op in '+-*/':
        for sa in shapes:
            for sb in shapes:
                if sa == () and sb == ():
                    continue
                add(h_binop, 'binop', dict(op=op, a=sa, b=sb, form='direct'), 'all entries reals in [-4,4]')
                if (len(sa), len(sb)) in ((0, 1), (1, 0), (1, 1), (2, 2), (1, 2), (2, 1), (0, 2), (2, 0), (3, 0), (2, 3)) and (sa in SHAPES_Q and sb in SHAPES_Q):
                    add(h_binop, 'binop', dict(op=op, a=sa, b=sb, form='string'), 'through the formula evaluator')
                    if sa != ():
                        add(h_binop, 'binop', dict(op=op, a=sa, b=sb, form='inplace'), 'in-place syntax')
    for shape in shapes:
        if shape == ():
            continue
        for expo in (0, 1, 2, 3, 2.0, 0.5, 1.5, 2.9999999996, 2.0000000004, 1e-12):
            if expo == 3 and shape == (3, 3) and not T:
                continue
            if expo in (2.9999999996, 2.0000000004, 1e-12) and shape not in ((2, 2), (3, 3), (2,)):
                continue
            if shape in ((4, 4),) and expo in (3,):
                continue
            add(h_pow, 'pow', dict(shape=shape, expo=expo, form='direct'), 'entries reals in [-4,4]')
        add(h_pow, 'pow', dict(shape=shape, expo=2, form='string'), 'through the formula evaluator')
        add(h_pow, 'pow', dict(shape=shape, expo=2, form='inplace'), 'in-place syntax')
        add(h_rpow, 'rpow', dict(shape=shape), 'scalar ^ array, array ^ array')
    for which in CONCRETE:
        for expo in (-1, -2):
            for en in (True, False):
                add(h_negpow, 'negpow', dict(which=which, expo=expo, enabled=en), 'concrete matrix')
    for expr in ('u*v*w', 'u*v*w*u', 'A*u*v*w', 'u*v/2*w', 'u*(v*w)', '(u*v)*w', 'u*A*v', 'u*v', '2*u*v', 'u*v*2'):
        add(h_triple, 'chain', dict(expr=expr, n=2), 'symbolic vectors of length 2')
    for i in range(len(FUNCTION_SCALARS)):
        add(h_function_scalar, 'function_scalar', dict(i=i), FUNCTION_SCALARS[i], validate=False)
    return hs
