"""C16 - each built-in comparer accepts exactly its documented equivalence class."""
import collections
from fractions import Fraction

import numpy as np

from symx import Harness, pname, sand, sor, simplies, siff, near_le, near_eq, snot, sif, smax, is_sym, SymBool
from symx.stubs import shadow, NpObjProxy

PROPERTY = 'C16'
EXPLANATION = ('between_comparer, congruence_comparer, eigenvector_comparer, MatrixEntryComparer, EqualityComparer(transform=...), LinearComparer '
               '(equals/offset modes) and MatrixGrader.validate_student_input_shape are called directly with targets, student values, scale '
               'factors and tolerances as z3 reals; z3 decides the documented iff on every path: between <=> real and start<=x<=stop; '
               'congruence <=> exists k with |x - t - k*m| <= tol; eigenvector: refused as zero <=> ||v|| <= tol, else accepted <=> ||Mv - lambda v|| <= tol; '
               'entry comparer: full <=> all entries match, zero <=> none, else flat / proportional fraction; shape mismatches are reported per policy.'
               ' LinearComparer with symbolic credits for equals/offset in any order; vector_span / vector_phase for one real vector with least squares stubbed by the exact projection.')
ASSUMPTIONS = ['congruence modulus is a concrete positive number (1, 3, 2*pi as a double); target and input range over [-10,10] so the witness k is bounded',
               'eigenvector/entry comparers: 2x2 (3x3 thorough) matrices / vectors of symbolic entries; absolute tolerances symbolic, percentage tolerances from a list']
BOUNDS = {'quick': 'between: all reals; congruence: 3 moduli x symbolic target/input/tolerance; eigenvector 2x2; entry comparer 2-vectors and 2x2, 1-2 samples; '
                   'LinearComparer equals/offset with 3 scalar samples (NRA, 30 s cap)', 'thorough': 'eigenvector 3x3, entry comparer 2x3 with 2 samples'}
OUTSIDE = ['vector_span_comparer / vector_phase_comparer beyond one real vector (stubbed least squares; complex phases other than +1/-1), LinearComparer proportional/linear modes (np.linalg.lstsq is LAPACK)', 'complex targets',
           'invariance of the eigenvector verdict under rescaling with percentage tolerance (NRA timeout in probes)']
DEADLINE = {'quick': 600, 'thorough': 1500}
FUNCS = ['comparers.between_comparer', 'comparers.congruence_comparer', 'comparers.eigenvector_comparer', 'comparers.MatrixEntryComparer.__call__',
         'comparers.EqualityComparer.__call__', 'linear_comparer.LinearComparer.__call__/get_equals_fit_error/get_offset_fit_error/check_comparing_zero',
         'mathfuncs.within_tolerance', 'mathfuncs.is_nearly_zero', 'MatrixGrader.validate_student_input_shape', 'MatrixGrader.check_response']
STUBS = ['comparer utils built from the real within_tolerance / validate_student_input_shape', 'span1: comparers.np.linalg.lstsq -> exact projection onto one real column (object arrays only)']
Utils = collections.namedtuple('Utils', ['tolerance', 'within_tolerance'])
MUtils = collections.namedtuple('Utils', ['tolerance', 'within_tolerance', 'validate_shape'])


def utils_for(tol, matrix=False, detail='type'):
    from mitxgraders.helpers.calc.mathfuncs import within_tolerance
    from mitxgraders import MatrixGrader
    wt = lambda x, y: within_tolerance(x, y, tol)   # noqa
    if matrix:
        return MUtils(tol, wt, lambda s, shape: MatrixGrader.validate_student_input_shape(s, shape, detail))
    return Utils(tol, wt)


def as_sym_bool(r):
    return r


def h_between(E):
    from mitxgraders.comparers import between_comparer
    a, b, x = E.real('start'), E.real('stop'), E.real('x')
    r = between_comparer([a, b], x, utils_for(0))
    E.check('between-iff-closed-interval', siff(r, sand(near_le(a, x), near_le(x, b))))
    return 'ok'


def h_between_complex(E):
    from mitxgraders.comparers import between_comparer
    from mitxgraders.exceptions import InputTypeError
    a, b = E.real('start', -3, 0), E.real('stop', 0, 3)
    try:
        between_comparer([a, b], 0.5 + 0.25j, utils_for(0))
        E.check('complex-input-refused', False)
    except InputTypeError:
        E.check('complex-input-refused', True)
    return 'raised'


MODULI = {'1': 1.0, '3': 3.0, '2pi': 2 * np.pi}


def h_congruence(E, mod):
    from mitxgraders.comparers import congruence_comparer
    m = MODULI[mod]
    t = E.real('target', -10, 10)
    x = E.real('x', -10, 10)
    tol = E.real('tol', 0, Fraction(1, 4))
    r = congruence_comparer([t, m], x, utils_for(tol))
    K = int(21 / m) + 2
    mm = Fraction(m)
    accept = sor(*[sand(near_le(x - t - k * mm, tol), near_le(-(x - t - k * mm), tol)) for k in range(-K, K + 1)])
    E.check('congruent-within-tolerance-accepted', simplies(accept, r))
    E.check('not-congruent-rejected', simplies(r, accept))
    return 'ok'


def _arr(E, name, shape, lo=-3, hi=3):
    from mitxgraders.helpers.calc.math_array import MathArray
    a = np.empty(shape, dtype=object)
    for idx in np.ndindex(*shape):
        a[idx] = E.real('%s%s' % (name, ''.join(map(str, idx))), lo, hi)
    return MathArray(a.astype(float) if E.mode == 'conc' else a)


def h_eigen(E, n, tolkind):
    from mitxgraders.comparers import eigenvector_comparer
    M = _arr(E, 'm', (n, n))
    v = _arr(E, 'v', (n,))
    lam = E.real('lambda', -3, 3)
    tol = E.real('tol', 0, 1) if tolkind == 'abs' else tolkind
    r = eigenvector_comparer([M, lam], v, utils_for(tol, matrix=True))
    v2 = sum(v[i] * v[i] for i in range(n))
    res = [sum(M[i, k] * v[k] for k in range(n)) - lam * v[i] for i in range(n)]
    r2 = sum(x * x for x in res)
    if tolkind == 'abs':
        zero = near_le(v2, tol * tol)
        within = near_le(r2, tol * tol)
    else:
        p = Fraction(float(tolkind[:-1]) * 0.01)
        zero = near_eq(v2, 0)
        mv2 = sum(sum(M[i, k] * v[k] for k in range(n)) ** 2 for i in range(n))
        within = near_le(r2, mv2 * p * p)
    if isinstance(r, dict):
        E.check('zero-vector-refused-with-message', sand(zero, r['grade_decimal'] == 0, r['msg'] == 'Eigenvectors must be nonzero.'))
        return 'zero'
    E.check('nonzero-vector-not-refused-as-zero', snot(zero))
    E.check('accepted-iff-Mv=lambda-v-within-tolerance', siff(r, within))
    return 'ok'


def h_eigen_shape(E, detail):
    from mitxgraders.comparers import eigenvector_comparer
    from mitxgraders.exceptions import InputTypeError
    M = _arr(E, 'm', (2, 2))
    outs = []
    for bad in (_arr(E, 'w', (3,)), E.real('s'), _arr(E, 'q', (2, 2))):
        try:
            eigenvector_comparer([M, 1.0], bad, utils_for(0.01, matrix=True, detail=detail))
            outs.append('graded')
        except InputTypeError as e:
            outs.append('mismatch')
    E.check('wrong-shape-reported-as-mismatch', outs == ['mismatch'] * 3)
    return outs


def h_comparer_shape(E, comparer, detail):
    """every array comparer reports a submission of the wrong shape (scalar, other length, matrix) as a shape mismatch - whatever its entries and
    its norm are (symbolic): it is never silently graded"""
    import mitxgraders.comparers.comparers as CM
    from mitxgraders.comparers import vector_span_comparer, vector_phase_comparer, MatrixEntryComparer
    from mitxgraders.exceptions import InputTypeError
    target = _arr(E, 't', (2,), 1, 3)
    params = {'span': [target], 'phase': [target], 'entry': [target]}[comparer]
    fn = {'span': vector_span_comparer, 'phase': vector_phase_comparer, 'entry': MatrixEntryComparer(entry_partial_credit=0.5)}[comparer]
    outs = []
    for bad in (_arr(E, 'w', (3,)), E.real('s'), _arr(E, 'q', (2, 2))):
        try:
            with shadow(CM, np=_NpWithLstsq()):
                if comparer == 'entry':
                    fn([params], [bad], utils_for(0.01, matrix=True, detail=detail))       # correlated comparer: one list entry per sample
                else:
                    fn(params, bad, utils_for(0.01, matrix=True, detail=detail))
            outs.append('graded')
        except InputTypeError:
            outs.append('mismatch')
    E.check('wrong-shape-reported-as-mismatch', outs == ['mismatch'] * 3)
    return outs


def h_entry(E, shape, samples, credit, tolkind='abs', real_utils=False):
    from mitxgraders.comparers import MatrixEntryComparer
    cmp_ = MatrixEntryComparer(entry_partial_credit=credit)
    tol = E.real('tol', 0, 1) if tolkind == 'abs' else tolkind
    exps = [_arr(E, 'e%d_' % s, shape) for s in range(samples)]
    stus = [_arr(E, 's%d_' % s, shape) for s in range(samples)]
    if real_utils:
        # the utilities a MatrixGrader really hands to its comparers (tolerance, within_tolerance(expected, student), shape validation)
        from mitxgraders import MatrixGrader
        utils = MatrixGrader(answers='0', tolerance=tol, max_array_dim=2).get_comparer_utils()
    else:
        utils = utils_for(tol, matrix=True)
    r = cmp_([[e] for e in exps], stus, utils)
    p = None if tolkind == 'abs' else Fraction(float(tolkind[:-1]) * 0.01)

    def close(e, s):
        d = e - s
        bound = tol if p is None else abs(e) * p
        return sand(near_le(d, bound), near_le(-d, bound))
    match = {}
    for idx in np.ndindex(*shape):
        match[idx] = sand(*[close(exps[s][idx], stus[s][idx]) for s in range(samples)])
    n = len(match)
    cnt = sum(sif(m, 1, 0) for m in match.values())
    if r is True:
        E.check('full-credit-iff-all-entries-match', near_eq(cnt, n))
        return 'full'
    E.check('result-is-dict', isinstance(r, dict) and set(r) == {'ok', 'grade_decimal', 'msg'})
    if r['grade_decimal'] == 0 and r['ok'] is False:
        E.check('zero-iff-no-entry-matches', near_eq(cnt, 0) if credit != 0 else cnt < n)
        return 'zero'
    # the code reports the double nearest to k/n (1/3, 1/6 ... are not doubles): compare n*grade with the integer count up to 1e-9
    g_n = r['grade_decimal'] * n
    right = sand(near_le(g_n - cnt, 1e-9), near_le(cnt - g_n, 1e-9)) if credit == 'proportional' else near_eq(r['grade_decimal'], credit)
    E.check('partial-credit-flat-or-proportional', sand(cnt > 0, cnt < n, right, r['ok'] == 'partial'))
    return 'partial'


def h_equality_transform(E):
    from mitxgraders.comparers import EqualityComparer
    cmp_ = EqualityComparer(transform=lambda z: 2 * z + 1)
    e, s = E.real('expected'), E.real('student')
    tol = E.real('tol', 0, 5)
    r = cmp_([e], s, utils_for(tol))
    E.check('transform-applied-to-both-sides', siff(r, sand(near_le(2 * (e - s), tol), near_le(2 * (s - e), tol))))
    r2 = cmp_(e, s, utils_for('10%'))
    p = Fraction(10.0 * 0.01)
    E.check('percentage-relative-to-transformed-expected', siff(r2, near_le(abs(2 * (e - s)), abs(2 * e + 1) * p)))
    return 'ok'


def h_shape_policy(E, raised, detail, suppress):
    """MatrixGrader mismatch policy with a symbolic scalar submitted where a vector is expected (and vice versa)"""
    from mitxgraders import MatrixGrader
    from mitxgraders.exceptions import InputTypeError
    v = _arr(E, 'v', (2,), 1, 2)
    g = MatrixGrader(answers='v', user_constants={'v': v}, samples=1, answer_shape_mismatch={'is_raised': raised, 'msg_detail': detail},
                     suppress_matrix_messages=suppress, max_array_dim=2)
    outs = []
    for stu in ('3', '[1, 2, 3]', '[[1, 2]]', 'v*v'):
        try:
            r = g(None, stu)
            outs.append(('graded', r['ok'], r['msg']))
        except InputTypeError as e:
            outs.append(('raised', None, str(e)))
    for kind, ok, msg in outs:
        if suppress:
            E.check('suppressed-mismatch-graded-wrong-silently', kind == 'graded' and ok is False and msg == '')
        elif raised:
            E.check('mismatch-raised', kind == 'raised')
        else:
            E.check('mismatch-graded-wrong-with-message', kind == 'graded' and ok is False and (msg != '' or detail is None))
        if not suppress and detail is not None:
            E.check('mismatch-message-names-kinds', 'Expected answer to be a vector' in msg)
    r = g(None, 'v + [0, 0]')
    E.check('right-shape-still-graded', r['ok'] is True)
    return [o[0] for o in outs]


def h_linear(E, mode, n=3):
    """LinearComparer with only equals/offset configured (lstsq-based modes are outside the claim): 3 scalar samples; the configured credits
    are symbolic, in any order (a more general relation may be worth more than a more specific one)"""
    from mitxgraders.comparers import LinearComparer
    cfg = {'equals': 1.0, 'proportional': None, 'offset': None, 'linear': None}
    ce = co = None
    if mode == 'offset':
        cfg = {'equals': 1.0, 'proportional': None, 'offset': 0.5, 'linear': None, 'offset_msg': 'off'}
    if mode == 'offset-any-credits':
        ce, co = E.real('credit_equals', 0, 1), E.real('credit_offset', 0, 1)
        cfg = {'equals': ce, 'proportional': None, 'offset': co, 'linear': None, 'offset_msg': 'off', 'equals_msg': 'eq'}
    cmp_ = LinearComparer(cfg)
    tol = E.real('tol', 0, 1)
    if n == '1-symbolic':
        # quick variant: one symbolic student sample, the other two concrete (equal to the expected ones, or shifted by a common offset)
        n = 3
        d = E.choice('shift', [0, 0.5])
        es = [1.0, 2.0, 3.0]
        ss = [E.real('s0', -3, 3), 2.0 + d, 3.0 + d]
    else:
        es = [E.real('e%d' % i, -3, 3) for i in range(n)]
        ss = [E.real('s%d' % i, -3, 3) for i in range(n)]
    r = cmp_([[e] for e in es], ss, utils_for(tol))
    eq2 = sum((es[i] - ss[i]) * (es[i] - ss[i]) for i in range(n))
    equals = near_le(eq2, tol * tol)
    if mode == 'equals':
        E.check('equals-credit-iff-equal-within-tolerance', siff(near_eq(r['grade_decimal'], 1), equals))
        E.check('otherwise-zero', sor(near_eq(r['grade_decimal'], 1), near_eq(r['grade_decimal'], 0)))
    else:
        mean = sum(es[i] - ss[i] for i in range(n)) / n
        off2 = sum((ss[i] + mean - es[i]) * (ss[i] + mean - es[i]) for i in range(n))
        offset = near_le(off2, tol * tol)
        if mode == 'offset':
            ce, co = 1, 0.5
        best = smax(sif(equals, ce, 0), sif(offset, co, 0))
        E.check('largest-credit-among-holding-relations', near_eq(r['grade_decimal'], best))
    return 'ok'


class _Lstsq1:
    """np.linalg for the comparers module: least squares against ONE real column on object arrays = the exact projection formula"""

    def __getattr__(self, n):
        return getattr(np.linalg, n)

    def lstsq(self, A, b, rcond=None):
        if isinstance(A, np.ndarray) and A.dtype == object and A.ndim == 2 and A.shape[1] == 1:
            v = [A[i, 0] for i in range(A.shape[0])]
            vv = sum(x * x for x in v)
            coef = sum(x * y for x, y in zip(v, b)) / vv
            res = sum((y - coef * x) * (y - coef * x) for x, y in zip(v, b))
            out = np.empty((1,), dtype=object)
            out[0] = res
            c = np.empty((1,), dtype=object)
            c[0] = coef
            return c, out, 1, None
        return np.linalg.lstsq(A, b, rcond=rcond)


class _NpWithLstsq:
    linalg = _Lstsq1()

    def __getattr__(self, n):
        return getattr(np, n)


def h_span1(E, n, tolkind):
    """vector_span_comparer with one real spanning vector (least squares stubbed by the exact projection): accepted iff the student vector is
    non-zero and its residual against the span is within tolerance of the STUDENT vector's norm"""
    import mitxgraders.comparers.comparers as CM
    from mitxgraders.comparers import vector_span_comparer
    v = _arr(E, 'v', (n,), 1, 3)
    s_ = _arr(E, 's', (n,), -3, 3)
    tol = E.real('tol', 0, 1) if tolkind == 'abs' else tolkind
    if E.mode == 'conc':
        r = vector_span_comparer([v], s_, utils_for(tol, matrix=True))
    else:
        with shadow(CM, np=_NpWithLstsq()):
            r = vector_span_comparer([v], s_, utils_for(tol, matrix=True))
    s2 = sum(s_[i] * s_[i] for i in range(n))
    vv = sum(v[i] * v[i] for i in range(n))
    vs = sum(v[i] * s_[i] for i in range(n))
    if tolkind == 'abs':
        zero = near_le(s2, tol * tol)
        bound2 = tol * tol
    else:
        p = Fraction(float(tolkind[:-1]) * 0.01)
        zero = near_eq(s2, 0)
        bound2 = s2 * p * p
    if isinstance(r, dict):
        E.check('zero-vector-refused-with-message', sand(zero, r['grade_decimal'] == 0, 'nonzero' in r['msg']))
        return 'zero'
    E.check('nonzero-vector-not-refused-as-zero', snot(zero))
    # residual^2 = |s|^2 - (v.s)^2/|v|^2  <= bound^2   <=>   |s|^2 |v|^2 - (v.s)^2 <= bound^2 |v|^2
    within = near_le(s2 * vv - vs * vs, bound2 * vv)
    E.check('accepted-iff-in-span-within-tolerance', siff(bool(r) if not hasattr(r, 'e') else r, within))
    return 'ok'


def h_phase1(E, n, tolkind):
    """vector_phase_comparer on real vectors (the unit-modulus phases of a real target that keep it real are +1 and -1; least squares stubbed by
    the exact projection): with zero tolerance accepted iff student = +target or -target; with an absolute tolerance accepted iff the residual
    against the span AND the difference of the two norms are within tolerance"""
    import mitxgraders.comparers.comparers as CM
    from mitxgraders.comparers import vector_phase_comparer
    v = _arr(E, 'v', (n,), 1, 3)
    s_ = _arr(E, 's', (n,), -3, 3)
    tol = E.real('tol', 0, 1) if tolkind == 'abs' else 0
    if E.mode == 'conc':
        r = vector_phase_comparer([v], s_, utils_for(tol, matrix=True))
    else:
        with shadow(CM, np=_NpWithLstsq()):
            r = vector_phase_comparer([v], s_, utils_for(tol, matrix=True))
    accepted = r if hasattr(r, 'e') else bool(r)
    if tolkind == 'zero':
        plus = sand(*[near_eq(s_[i], v[i]) for i in range(n)])
        minus = sand(*[near_eq(s_[i], -v[i]) for i in range(n)])
        E.check('zero-tolerance-accepts-only-plus-or-minus-target', simplies(accepted, sor(plus, minus)))
        E.check('plus-or-minus-target-accepted', simplies(sor(sand(*[s_[i] == v[i] for i in range(n)]), sand(*[s_[i] == -v[i] for i in range(n)])), accepted))
        return 'ok'
    s2 = sum(s_[i] * s_[i] for i in range(n))
    vv = sum(v[i] * v[i] for i in range(n))
    vs = sum(v[i] * s_[i] for i in range(n))
    in_span = near_le(s2 * vv - vs * vs, tol * tol * vv)
    # | |v| - |s| | <= tol   <=>   vv + s2 - tol^2 <= 2 |v||s|   <=>   (rhs >= 0 and lhs <= 0) or lhs^2 <= 4 vv s2
    lhs = vv + s2 - tol * tol
    same_mag = sor(near_le(lhs, 0), near_le(lhs * lhs, 4 * vv * s2))
    E.check('accepted-iff-in-span-and-same-magnitude', siff(accepted, sand(in_span, same_mag)))
    return 'ok'


LINEAR_CASES = [('equal', 1.0, 0.0, 1.0), ('proportional', 3.0, 0.0, 0.8), ('proportional-negative', -2.0, 0.0, 0.8), ('offset', 1.0, 2.0, 0.6), ('linear', 2.0, 3.0, 0.4),
                ('linear-tiny-slope', 1e-6, 1.0, 0.4), ('linear-huge-offset', 2.0, 1e6, 0.4), ('linear-negative', -0.5, -4.0, 0.4), ('proportional-tiny', 1e-7, 0.0, 0.8),
                ('offset-huge', 1.0, 1e7, 0.6), ('quadratic', None, None, 0.0)]


def h_linear_concrete(E, idx, tol):
    """concrete companion for the least-squares modes (LAPACK is outside the solver's reach): exact relations student = a*expected + b over 5 samples,
    with slopes and offsets of very different magnitudes, earn the largest configured credit among the relations that hold; a quadratic relation earns 0"""
    from mitxgraders.comparers import LinearComparer
    name, a, b, want = LINEAR_CASES[idx]
    cmp_ = LinearComparer(equals=1.0, proportional=0.8, offset=0.6, linear=0.4)
    expected = [1.0, 2.5, 4.0, 7.0, 11.0]
    student = [e * e for e in expected] if a is None else [a * e + b for e in expected]
    r = cmp_([[e] for e in expected], student, utils_for(tol))
    E.check('largest-credit-among-holding-relations', abs(r['grade_decimal'] - want) < 1e-12)
    return name


def h_linear_zero(E, shape, samples):
    """LinearComparer.check_comparing_zero / get_valid_modes: proportional and linear relations are dropped exactly when the student samples are
    all (nearly) zero or the expected samples are all exactly zero - decided for every entry value"""
    from mitxgraders.comparers import LinearComparer
    tol = E.real('tol', 0, 1)
    if shape == ():
        exps = [E.real('e%d' % i, -2, 2) for i in range(samples)]
        stus = [E.real('s%d' % i, -2, 2) for i in range(samples)]
        e_entries = [[e] for e in exps]
        s_entries = [[x] for x in stus]
    else:
        exps = [_arr(E, 'e%d_' % i, shape, -2, 2) for i in range(samples)]
        stus = [_arr(E, 's%d_' % i, shape, -2, 2) for i in range(samples)]
        e_entries = [[a[idx] for idx in np.ndindex(*shape)] for a in exps]
        s_entries = [[a[idx] for idx in np.ndindex(*shape)] for a in stus]
    got = LinearComparer.check_comparing_zero([[e] for e in exps], stus, tol)
    expected_zero = sand(*[near_eq(v, 0) for row in e_entries for v in row])
    student_zero = sand(*[near_le(sum(v * v for v in row), tol * tol) for row in s_entries])
    E.check('comparing-zero-iff-either-side-is-zero', siff(bool(got) if not hasattr(got, 'e') else got, sor(expected_zero, student_zero)))
    cmp_ = LinearComparer(equals=1.0, proportional=0.5, offset=0.25, linear=0.1)
    E.check('zero-drops-exactly-proportional-and-linear', cmp_.get_valid_modes(True) == ('equals', 'offset') and cmp_.get_valid_modes(False) == ('equals', 'proportional', 'offset', 'linear'))
    return 'ok'


def harnesses(tier):
    hs = []
    T = tier == 'thorough'

    def add(fn, base, params, bounds, **kw):
        hs.append(Harness(pname(base, **params), fn, tuple(params.values()), FUNCS, bounds, STUBS, **kw))
    add(h_between, 'between', {}, 'any reals')
    add(h_between_complex, 'between_complex', {}, 'complex submission')
    for m in MODULI:
        add(h_congruence, 'congruence', dict(mod=m), 'target, input in [-10,10], tol in [0,1/4]')
    for tk in ('abs', '5%'):
        add(h_eigen, 'eigen', dict(n=2, tol=tk), '2x2 symbolic matrix, eigenvalue and vector', expect_inconclusive=True)
    if T:
        add(h_eigen, 'eigen', dict(n=3, tol='abs'), '3x3 symbolic', expect_inconclusive=True)
    for d in ('type', 'shape', None):
        add(h_eigen_shape, 'eigen_shape', dict(detail=d), 'wrong shapes')
    for cmpname in ('span', 'phase', 'entry'):
        add(h_comparer_shape, 'comparer_shape', dict(comparer=cmpname, detail='type'), 'wrong shapes with symbolic entries (any norm)')
    for shape, samples in [((2,), 1), ((2,), 2), ((2, 2), 1), ((3,), 1)] + ([((2, 3), 2), ((3,), 3)] if T else []):
        for credit in (0, 0.5, 'proportional'):
            add(h_entry, 'entry', dict(shape='x'.join(map(str, shape)), samples=samples, credit=credit), 'symbolic entries and tolerance')
            hs[-1].params = (shape, samples, credit)
    for credit in (0.5, 'proportional'):
        add(h_entry, 'entry', dict(shape='2', samples=1, credit=credit, tol='5%'), 'symbolic entries, percentage tolerance (entry by entry)')
        hs[-1].params = ((2,), 1, credit, '5%')
        add(h_entry, 'entry', dict(shape='2', samples=1, credit=credit, tol='10%', utils='MatrixGrader'), 'symbolic entries, percentage tolerance, the comparer utilities of a real MatrixGrader')
        hs[-1].params = ((2,), 1, credit, '10%', True)
    add(h_equality_transform, 'equality_transform', {}, 'any reals')
    for raised in (True, False):
        for detail in ('type', 'shape', None):
            for sup in (False, True):
                add(h_shape_policy, 'shape_policy', dict(raised=raised, detail=detail, suppress=sup), 'symbolic constant')
    for tk in ('abs', '1%'):
        add(h_span1, 'span1', dict(n=2, tol=tk), 'one real spanning 2-vector, symbolic student vector (NRA)', expect_inconclusive=True)
    for tk in ('zero',) + (('abs',) if T else ()):
        add(h_phase1, 'phase1', dict(n=2, tol=tk), 'real target 2-vector, symbolic real student vector (NRA)', expect_inconclusive=True)
    for shape, samples in [((), 3), ((2,), 2), ((3,), 1)] + ([((2, 2), 2)] if T else []):
        add(h_linear_zero, 'linear_zero', dict(shape='x'.join(map(str, shape)) or 'scalar', samples=samples), 'symbolic entries and tolerance')
        hs[-1].params = (shape, samples)
    for mode in ('equals',) + (('offset',) if T else ()):
        add(h_linear, 'linear', dict(mode=mode), '3 scalar samples (NRA)', expect_inconclusive=True)
    for i in range(len(LINEAR_CASES)):
        for tol in (('0.01%', 1e-6) if LINEAR_CASES[i][0] in ('equal', 'proportional', 'proportional-negative', 'offset', 'linear', 'linear-negative', 'quadratic') else (1e-6,)):
            add(h_linear_concrete, 'linear_concrete', dict(i=i, case=LINEAR_CASES[i][0], tol=tol), 'exact relation over 5 concrete samples', validate=False)
            hs[-1].params = (i, tol)
    add(h_linear, 'linear', dict(mode='offset-any-credits', n='1-symbolic'), '3 scalar samples of which one student sample symbolic; symbolic credits for equals and offset in any order', expect_inconclusive=True)
    if T:
        add(h_linear, 'linear', dict(mode='offset-any-credits', n=3), '3 symbolic scalar samples, symbolic credits for equals and offset in any order (NRA)', expect_inconclusive=True)
    return hs
