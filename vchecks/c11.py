"""C11 - a grader's verdict depends only on its configuration and the current call."""
import copy

import numpy as np

from symx import Harness, pname, sand, sor, simplies, siff, near_le, near_eq, snot, is_sym, SymReal, POISON
from symx.stubs import make_sym_sampler

PROPERTY = 'C11'
EXPLANATION = ('Bounded model checking of grader OBJECTS on the real code: every sequence (up to the bound) of calls over the event alphabet '
               '(expect in {absent, e1, e2, invalid}) x (input in {right, wrong, malformed}) is executed on one grader instance - the event choices '
               'are symbolic and forked, FormulaGrader samples are z3 reals - and call n must equal (result dictionary or exception class and '
               'message) what a FRESHLY constructed grader returns for the effective expect given by a small reference state machine (configured '
               'answers ignore expect; otherwise the current expect, else the last successfully supplied one). Around every sequence the author\'s '
               'configuration objects, the default variable/function/suffix tables, MathArray._negative_powers, numpy error settings, registered '
               'class defaults and a bystander grader are snapshotted and compared.'
               ' An expect that passes the schema and fails the post-schema validation; failing calls of every kind (recursion depth, parse error, evaluation error) followed by a fresh string on ANOTHER grader sharing the process-wide parser.')
ASSUMPTIONS = ['state is discrete: the claim is exhaustive within the sequence bound', 'FormulaGrader verdicts are compared as ok/grade classes (samples are fresh per call)']
BOUNDS = {'quick': 'all sequences of length <= 3 over 12 events for String/Formula graders, length <= 2 for Numerical/Matrix/SingleList, with and without configured answers, debug on/off',
          'thorough': 'length <= 4 for String/Formula, <= 3 for the others'}
OUTSIDE = ['sequences longer than the bound', 'IntegralGrader', 'graders sharing subgraders beyond the ListGrader harness']
DEADLINE = {'quick': 600, 'thorough': 2400}
FUNCS = ['ItemGrader.__call__ (answer inference, inferring_answers)', 'AbstractGrader.__call__/create_debuglog/log_created', 'StringGrader.__call__', 'FormulaGrader.__init__/raw_check',
         'MathMixin.validate_math_config', 'MatrixGrader.check_response (MathArray.enable_negative_powers)', 'SingleListGrader.check_response', 'ListGrader.check',
         'MathExpression.eval/eval_variable', 'ObjectWithSchema.__init__/coerce2unicode']
STUBS = ['SymSampler']
EXPECTS = ['absent', 'e1', 'e2', 'invalid']
INPUTS = ['right', 'wrong', 'malformed']


class Spec:
    """per grader class: constructor, expects e1/e2, inputs"""

    def __init__(self, name):
        self.name = name

    def build(self, E, configured, debug, tag=''):
        import mitxgraders as m
        kw = dict(debug=debug)
        n = self.name
        if n == 'string':
            if configured:
                kw['answers'] = 'cfg'
            return m.StringGrader(**kw)
        if n == 'formula':
            S = make_sym_sampler(E, 'x' + tag, 1, 2)
            if configured:
                kw['answers'] = '7*x'
            return m.FormulaGrader(variables=['x'], sample_from={'x': S()}, samples=2, **kw)
        if n == 'numerical':
            if configured:
                kw['answers'] = '7'
            return m.NumericalGrader(**kw)
        if n == 'matrix':
            if configured:
                kw['answers'] = '[7, 7]'
            return m.MatrixGrader(negative_powers=False, **kw)
        if n == 'singlelist':
            if configured:
                kw['answers'] = ['c1', 'c2']
            return m.SingleListGrader(subgrader=m.StringGrader(), **kw)
        if n == 'list':
            return m.ListGrader(answers=['c1', 'c2'], subgraders=m.StringGrader(), **kw)
        raise KeyError(n)

    def expect(self, which):
        n = self.name
        tab = {'string': {'e1': 'cat', 'e2': 'dog'}, 'formula': {'e1': '2*x', 'e2': '3*x+1'}, 'numerical': {'e1': '2', 'e2': '3'},
               'matrix': {'e1': '[1, 2]', 'e2': '[3, 4]'}, 'singlelist': {'e1': 'a, b', 'e2': 'c, d'}, 'list': {'e1': 'ignored', 'e2': 'ignored too'}}[n]
        if which == 'absent':
            return None
        if which == 'invalid':
            return 5
        if which == 'invalid-late':
            return 'a,,b'         # passes the answers schema, refused by the post-schema validation (blank item)
        return tab[which]

    def expects(self):
        return EXPECTS + (['invalid-late'] if self.name == 'singlelist' else [])

    def right_for(self, eff):
        """an input that is right for the effective expect (None -> no answer available)"""
        n = self.name
        if n == 'list':
            return ['c2', 'c1']
        if eff is None:
            return 'whatever' if n in ('string', 'singlelist') else '1'
        if n == 'singlelist':
            return 'b, a' if eff == 'a, b' else ('d, c' if eff == 'c, d' else 'c2, c1')
        if n == 'formula':
            return {'2*x': 'x+x', '3*x+1': '1+x*3', '7*x': 'x*7'}[eff]
        if n == 'matrix':
            return {'[1, 2]': '[1,2]*1', '[3, 4]': '[3,4]+[0,0]', '[7, 7]': '7*[1,1]'}[eff]
        if n == 'numerical':
            return eff + '.0'
        return eff

    def wrong(self):
        return {'string': 'eel', 'formula': 'x+50', 'numerical': '50', 'matrix': '[50, 50]', 'singlelist': 'y, z', 'list': ['c1', 'zz']}[self.name]

    def malformed(self):
        return {'string': 5, 'formula': '1+', 'numerical': '(1', 'matrix': '[1,2]^-1 + [1,', 'singlelist': 'a,,b', 'list': ['only-one']}[self.name]

    def configured_expect(self):
        return {'string': 'cfg', 'formula': '7*x', 'numerical': '7', 'matrix': '[7, 7]', 'singlelist': 'c1, c2', 'list': 'n/a'}[self.name]


def _call(g, expect, inp):
    import z3
    from symx import Unsupported
    try:
        r = g(expect, inp)
        return ('ret', r)
    except z3.Z3Exception as e:
        raise Unsupported('solver trouble inside a grader call: %s' % e)      # never part of the observable behaviour
    except Exception as e:   # noqa  (what escapes is part of the observable behaviour being compared)
        return ('exc', type(e).__name__, str(e))


def _same(a, b, debug):
    if a[0] != b[0]:
        return False
    if a[0] == 'exc':
        return a[1] == b[1] and (debug or a[2] == b[2])
    ra, rb = a[1], b[1]
    if 'input_list' in ra or 'input_list' in rb:
        if set(ra) != set(rb) or len(ra['input_list']) != len(rb['input_list']):
            return False
        ents = all(x['ok'] == y['ok'] and x['grade_decimal'] == y['grade_decimal'] and x['msg'] == y['msg'] for x, y in zip(ra['input_list'], rb['input_list']))
        om = (_strip_log(ra['overall_message']) == _strip_log(rb['overall_message'])) if debug else ra['overall_message'] == rb['overall_message']
        return ents and om
    if set(ra) != set(rb) or ra['ok'] != rb['ok']:
        return False
    ga, gb = ra['grade_decimal'], rb['grade_decimal']
    if is_sym(ga) or is_sym(gb):
        return False
    if ga != gb:
        return False
    if debug:
        # the debug log (a <pre> block) legitimately differs: a stateful grader does not re-infer a stored expect. Compare the rest.
        return _strip_log(ra['msg']) == _strip_log(rb['msg'])
    return ra['msg'] == rb['msg']


def _strip_log(msg):
    i = msg.find('<pre>MITx Grading Library Version')
    return msg if i < 0 else msg[:i].rstrip('<br/>\n')


def _log_fresh(got, inp):
    """a debug log must describe THIS call only: one header, one student response (the current input), at most one inference line"""
    if got[0] != 'ret':
        return True
    msg = got[1]['msg'] if 'msg' in got[1] else got[1].get('overall_message', '')
    if isinstance(inp, list):
        return (msg.count('MITx Grading Library Version') == 1 and msg.count('Student Responses') == 1
                and ('Student Responses:<br/>\n' + '<br/>\n'.join(inp)) in msg)
    return (msg.count('MITx Grading Library Version') == 1 and msg.count('Student Response') == 1 and msg.count('Expect value inferred') <= 1
            and ('Student Response:<br/>\n%s' % inp) in msg)


def _globals_snapshot():
    import mitxgraders as m
    from mitxgraders.helpers.calc import mathfuncs, expressions
    from mitxgraders.helpers.calc.math_array import MathArray
    from mitxgraders.helpers.math_helpers import MathMixin
    snap = {
        'DEFAULT_VARIABLES': dict(mathfuncs.DEFAULT_VARIABLES), 'DEFAULT_FUNCTIONS': dict(mathfuncs.DEFAULT_FUNCTIONS), 'DEFAULT_SUFFIXES': dict(mathfuncs.DEFAULT_SUFFIXES),
        'MathMixin.default_variables': dict(MathMixin.default_variables), 'MathMixin.default_functions': dict(MathMixin.default_functions),
        'FormulaGrader.default_functions': dict(m.FormulaGrader.default_functions), 'MatrixGrader.default_functions': dict(m.MatrixGrader.default_functions),
        'negative_powers': MathArray._negative_powers, 'geterr': dict(np.geterr()), 'geterrcall': np.geterrcall(),
        'default_values': {c.__name__: copy.deepcopy(c.default_values) for c in (m.StringGrader, m.FormulaGrader, m.NumericalGrader, m.MatrixGrader, m.SingleListGrader,
                                                                                 m.ListGrader)},
        'FormulaGrader.default_comparer': m.FormulaGrader.default_comparer, 'MatrixGrader.default_comparer': m.MatrixGrader.default_comparer,
    }
    return snap


def h_sequence(E, cls, configured, debug, length):
    spec = Spec(cls)
    before = _globals_snapshot()
    g = spec.build(E, configured, debug, 'g')
    bystander = spec.build(E, True, False, 'b')
    by_cfg = copy.deepcopy({k: v for k, v in bystander.config.items() if k != 'sample_from'})
    last_good = None
    sig = []
    for step in range(length):
        ex = E.choice('expect%d' % step, spec.expects())
        kind = E.choice('input%d' % step, INPUTS)
        expect = spec.expect(ex)
        # reference state machine
        if configured:
            eff = spec.configured_expect()
        elif ex in ('e1', 'e2'):
            eff = expect
        elif ex in ('invalid', 'invalid-late'):
            eff = 'INVALID'
        else:
            eff = last_good
        inp = {'right': spec.right_for(eff if eff != 'INVALID' else None), 'wrong': spec.wrong(), 'malformed': spec.malformed()}[kind]
        got = _call(g, expect, inp)
        fresh = spec.build(E, configured, debug, 'f%d' % step)
        if configured:
            want = _call(fresh, expect, inp)
        elif eff == 'INVALID':
            want = _call(fresh, expect, inp)
        else:
            want = _call(fresh, eff, inp)
        E.check('call-equals-fresh-grader', _same(got, want, debug))
        if debug:
            E.check('debug-log-describes-this-call-only', _log_fresh(got, inp))
        if ex in ('e1', 'e2') and not configured and not (cls == 'string' and kind == 'malformed' and False):
            # the expect was supplied successfully iff inference/validation went through, which does not depend on the input
            last_good = expect
        sig.append((ex, kind, got[0], got[1] if got[0] == 'exc' else str(got[1].get('ok', [e_['ok'] for e_ in got[1].get('input_list', [])]))))
    after = _globals_snapshot()
    E.check('process-wide-settings-untouched', all(before[k] == after[k] for k in before))
    E.check('other-instances-untouched', {k: v for k, v in bystander.config.items() if k != 'sample_from'} == by_cfg)
    return sig


def h_author_config(E, cls):
    """construction and grading never alter the author's configuration objects; one dictionary reused for several graders"""
    import mitxgraders as m
    variables = ['x']
    consts = {'c': 3.0}
    funcs = {'f': abs}
    answers = ({'expect': 'cat', 'msg': 'm', 'grade_decimal': 0.5}, 'dog') if cls == 'string' else {'expect': 'c*x', 'msg': 'hi'}
    if cls == 'singlelist':
        answers = [('a', {'expect': 'b', 'grade_decimal': 0.5}), 'c']
    if cls == 'list':
        answers = [['a', 'b'], ({'expect': 'c', 'msg': 'm'}, 'd')]
    cfg = {'string': dict(answers=answers, wrong_msg='w'),
           'formula': dict(answers=answers, variables=variables, user_constants=consts, user_functions=funcs, sample_from={'x': [1, 2]}, blacklist=['sin']),
           'matrix': dict(answers=answers, variables=variables, user_constants=consts, identity_dim=2),
           'singlelist': dict(answers=answers, subgrader=m.StringGrader()),
           'list': dict(answers=answers, subgraders=[m.SingleListGrader(subgrader=m.StringGrader()), m.StringGrader()], ordered=True)}[cls]
    snap = copy.deepcopy({k: v for k, v in cfg.items() if k not in ('subgrader', 'subgraders')})
    C = {'string': m.StringGrader, 'formula': m.FormulaGrader, 'matrix': m.MatrixGrader, 'singlelist': m.SingleListGrader, 'list': m.ListGrader}[cls]
    g1 = C(cfg)
    g2 = C(cfg)
    E.check('author-config-untouched-by-construction', {k: v for k, v in cfg.items() if k not in ('subgrader', 'subgraders')} == snap)
    inputs = {'string': ['cat', 'eel'], 'formula': ['3*x', 'x+', 'f(x)+sin(x)'], 'matrix': ['3*x', '[1,2]'], 'singlelist': ['a, c', 'b,c', 'z'], 'list': [['a,b', 'c'], ['b,a', 'x']]}[cls]
    outs = []
    for inp in inputs + inputs:
        for g in (g1, g2):
            outs.append(repr(_call(g, None, inp)))
    E.check('author-config-untouched-by-grading', {k: v for k, v in cfg.items() if k not in ('subgrader', 'subgraders')} == snap)
    E.check('graders-built-from-one-dict-agree', outs[0::2] == outs[1::2] or cls in ('formula', 'matrix'))
    E.check('repeat-calls-agree', cls in ('formula', 'matrix') or outs[:len(inputs) * 2] == outs[len(inputs) * 2:])
    return 'ok'


FAILING_INPUTS = {'deep-nesting': 'x+' + '(' * 800 + 'f(k)' + ')' * 800, 'parse-error': 'x+f(k)+', 'unbalanced': '(x+f(k)', 'undefined-function': 'x+gg(k)',
                  'division-by-zero': 'x/0+f(k)', 'unknown-suffix': '2q+x', 'fine': 'x+f(k)'}


def h_shared_parser(E, length):
    """the process-wide parser is shared by all graders: a call that fails in ANY way (recursion depth, parse error, evaluation error) leaves nothing
    behind that another grader instance, with other variables, could observe when it grades a string never seen before"""
    import mitxgraders as m
    import mitxgraders.helpers.calc.expressions as X
    from mitxgraders.exceptions import MITxError
    X.PARSER.cache = {}
    g1 = m.FormulaGrader(answers='x+f(k)', variables=['x', 'k'], user_functions={'f': lambda t: t + 1}, samples=1)
    g2 = m.FormulaGrader(answers='y*2', variables=['y'], samples=1)
    for step in range(length):
        kind = E.choice('failing%d' % step, sorted(FAILING_INPUTS))
        try:
            g1(None, FAILING_INPUTS[kind])
        except MITxError:
            pass
        E.check('shared-parser-scratch-empty-after-every-call', not X.PARSER.variables_used and not X.PARSER.functions_used and not X.PARSER.suffixes_used)
        fresh_string = 'y+y+0*%d' % (step + 7)                 # never parsed before in this process
        try:
            r = g2(None, fresh_string)
            E.check('other-grader-unaffected-by-failed-call', r['ok'] is True)
        except MITxError as e:
            E.check('other-grader-unaffected-by-failed-call', False)
    return 'ok'


def h_debug_mix(E):
    """list graders and their subgraders with debug switched on or off independently, the subgrader used on its own before or not: the list call grades
    the same way in all combinations (the verdict does not depend on which instance created a debug log earlier)"""
    import mitxgraders as m
    from mitxgraders.exceptions import MITxError
    parent_debug = E.fork_bool('parent_debug')
    sub_debug = E.fork_bool('sub_debug')
    solo_first = E.fork_bool('subgrader_called_on_its_own_first')
    kind = E.choice('subgrader', ['formula', 'numerical', 'string', 'two-formula-subgraders'])
    S = make_sym_sampler(E, 'x', 1, 2)
    if kind == 'formula':
        sub = m.FormulaGrader(variables=['x'], sample_from={'x': S()}, samples=1, debug=sub_debug)
        answers, right = ['x', '2*x'], ['x+0', 'x+x']
    elif kind == 'numerical':
        sub = m.NumericalGrader(debug=sub_debug)
        answers, right = ['1', '2'], ['1.0', '2.0']
    elif kind == 'string':
        sub = m.StringGrader(debug=sub_debug)
        answers, right = ['cat', 'dog'], ['cat', 'dog']
    else:
        sub = [m.FormulaGrader(variables=['x'], sample_from={'x': S()}, samples=1, debug=sub_debug), m.FormulaGrader(variables=['x'], sample_from={'x': S()}, samples=1, debug=not sub_debug)]
        answers, right = ['x', '2*x'], ['x+0', 'x+x']
    if solo_first:
        for sg in (sub if isinstance(sub, list) else [sub]):
            try:
                sg(answers[0], right[0])
            except MITxError:
                pass
    g = m.ListGrader(answers=answers, subgraders=sub, ordered=True, debug=parent_debug)
    for inputs, want in ((right, [True, True]), ([right[0], 'zz' if kind == 'string' else '77'], [True, False])):
        try:
            r = g(None, list(inputs))
            E.check('list-verdict-independent-of-debug-switches-and-history', [e['ok'] for e in r['input_list']] == want)
            E.check('debug-log-only-when-the-list-grader-has-debug', ('MITx Grading Library Version' in r['overall_message']) == parent_debug)
        except MITxError:
            E.check('list-verdict-independent-of-debug-switches-and-history', False)
    return 'ok'


def _class_tables():
    """every class-level table of default names of every math grader class (MathMixin and all its subclasses, wherever they override them)"""
    from mitxgraders.helpers.math_helpers import MathMixin
    import mitxgraders  # noqa - makes sure all grader classes are imported
    seen, todo, out = set(), [MathMixin], {}
    while todo:
        c = todo.pop()
        if c in seen:
            continue
        seen.add(c)
        todo += c.__subclasses__()
        for attr in ('default_variables', 'default_functions', 'default_suffixes'):
            if attr in c.__dict__:
                out['%s.%s' % (c.__name__, attr)] = dict(c.__dict__[attr])
    return out


def h_default_removal(E):
    """a default constant or function suppressed in ONE grader (user_constants={'pi': None} ...) stays available to every other grader of every class:
    the class-level tables are never edited"""
    import mitxgraders as m
    before = _class_tables()
    victim = E.choice('class_with_suppressed_default', ['FormulaGrader', 'NumericalGrader', 'MatrixGrader', 'SumGrader'])
    what = E.choice('suppressed', ['pi', 'e', 'i'])
    sg = dict(answers={'lower': '1', 'upper': '2', 'summand': 'n', 'summation_variable': 'n'})
    kw = dict(user_constants={what: None})
    if victim == 'SumGrader':
        m.SumGrader(**sg, **kw)
    else:
        getattr(m, victim)(answers='1', **kw)
    E.check('class-level-default-tables-untouched', _class_tables() == before)
    for cls in ('FormulaGrader', 'NumericalGrader', 'MatrixGrader', 'SumGrader'):
        expr = {'pi': 'pi', 'e': 'e', 'i': 'i^2'}[what]
        if cls == 'SumGrader':
            g = m.SumGrader(answers={'lower': '1', 'upper': '2', 'summand': expr + '*n', 'summation_variable': 'n'}, input_positions={'summand': 1})
            r = g(None, 'n*' + expr)
        else:
            g = getattr(m, cls)(answers=expr)
            r = g(None, expr + '+0')
        E.check('other-graders-still-know-the-default', r['ok'] is True)
    return 'ok'


def h_array_dim_history(E):
    """the same text evaluated where it is a matrix and where it is a vector, by graders with different max_array_dim, in either order: each grader sees only
    the array rank of ITS evaluation (evaluation metadata is per call, not remembered on the shared parsed expression)"""
    import mitxgraders as m
    import mitxgraders.helpers.calc.expressions as X
    from mitxgraders.helpers.calc.math_array import MathArray
    from mitxgraders.exceptions import MITxError
    X.PARSER.cache = {}
    text = E.choice('text', ['[v, v]', '[v, 2*v]+[v, v]', '[v]'])
    first = E.choice('first', ['matrix-grader', 'vector-grader'])
    big = m.MatrixGrader(answers=text, user_constants={'v': MathArray([1.0, 2.0])}, max_array_dim=2)
    small = m.MatrixGrader(answers=text, user_constants={'v': 3.0}, max_array_dim=1)
    order = [big, small, big, small] if first == 'matrix-grader' else [small, big, small, big]
    for g in order:
        try:
            r = g(None, text)
            E.check('grader-sees-only-its-own-evaluation', r['ok'] is True)
        except MITxError:
            E.check('grader-sees-only-its-own-evaluation', False)
    return 'ok'


def h_scopes(E):
    """the variable/function scopes handed to the evaluator are not altered, whatever the outcome"""
    from mitxgraders.helpers.calc.expressions import evaluator
    from mitxgraders.helpers.calc.math_array import MathArray
    from mitxgraders.exceptions import MITxError
    x = E.real('x', -2, 2)
    vs = {'x': x, 'v': MathArray([1.0, 2.0]), 'k': 3}
    fs = {'f': abs, 'sin': np.sin}
    sf = {'%': 0.01, 'k': 1000.0}
    snap = (dict(vs), dict(fs), dict(sf), vs['v'].copy())
    s = E.choice('formula', ['x+1', 'v*v+k', 'x/0', 'f(x)+2k', 'nope+1', 'v+1', '(x', 'v^2', 'sin(x)*5%'])
    try:
        evaluator(s, vs, fs, sf, max_array_dim=1)
    except MITxError:
        pass
    E.check('scopes-untouched', set(vs) == set(snap[0]) and all(vs[k] is snap[0][k] for k in vs) and fs == snap[1] and sf == snap[2]
            and bool(np.all(vs['v'] == snap[3])))
    return s


def h_negative_power_switch(E):
    """a MatrixGrader with negative powers disabled never leaves the process-wide switch flipped, also when grading raises"""
    import mitxgraders as m
    from mitxgraders.helpers.calc.math_array import MathArray
    g_off = m.MatrixGrader(answers='[[1,0],[0,1]]', negative_powers=False, max_array_dim=2)
    g_on = m.MatrixGrader(answers='[[1,0],[0,1]]', negative_powers=True, max_array_dim=2)
    seq = []
    for step in range(3):
        which = E.choice('grader%d' % step, ['off', 'on'])
        inp = E.choice('input%d' % step, ['[[1,0],[0,1]]^-1', '[[1,0],[0,1]]', '[[1,2],[2,4]]^-1', '[1,2]^2', '[[1,0],[0,1]]^-1 + (', '[[2,0],[0,0.5]]^-1*[[2,0],[0,0.5]]'])
        got = _call(g_off if which == 'off' else g_on, None, inp)
        want = _call(m.MatrixGrader(answers='[[1,0],[0,1]]', negative_powers=(which == 'on'), max_array_dim=2), None, inp)
        E.check('call-equals-fresh-grader', _same(got, want, False))
        E.check('negative-power-switch-restored', MathArray._negative_powers is True)
        seq.append((which, got[0]))
    return seq


def h_registered_defaults(E, cls):
    """registered class defaults (the plugin mechanism) are never altered by constructing or calling graders"""
    import mitxgraders as m
    C = {'string': m.StringGrader, 'formula': m.FormulaGrader, 'list': m.ListGrader, 'item-base': m.StringGrader}[cls]
    target = m.baseclasses.ItemGrader if cls == 'item-base' else C
    reg = {'wrong_msg': 'registered'} if cls in ('string', 'item-base') else ({'tolerance': 0.5} if cls == 'formula' else {'partial_credit': False})
    try:
        target.register_defaults(dict(reg))
        snap = copy.deepcopy(target.default_values)
        variant = E.choice('config', ['kwargs', 'dict', 'empty', 'override'])
        base = {'string': dict(answers='cat'), 'item-base': dict(answers='cat'), 'formula': dict(answers='1'), 'list': dict(answers=['a', 'b'], subgraders=m.StringGrader())}[cls]
        if variant == 'kwargs':
            g = C(**base)
        elif variant == 'dict':
            g = C(dict(base))
        elif variant == 'empty':
            g = C(**({'subgraders': m.StringGrader()} if cls == 'list' else {}))
        else:
            ov = {'wrong_msg': 'mine'} if cls in ('string', 'item-base') else ({'tolerance': 0.1} if cls == 'formula' else {'partial_credit': True})
            g = C(**dict(base, **ov))
        E.check('registered-defaults-untouched-by-construction', target.default_values == snap)
        key = list(reg)[0]
        E.check('registered-default-applies-unless-overridden', g.config[key] == (reg[key] if variant != 'override' else {'wrong_msg': 'mine', 'tolerance': 0.1, 'partial_credit': True}[key]))
        # a later grader of the same class is built from the registered defaults only, not from an earlier grader's configuration
        g2 = C(**({'subgraders': m.StringGrader()} if cls == 'list' else {}))
        E.check('later-instances-unaffected', (not g2.config['answers']) and g2.config[key] == reg[key])
        if cls != 'list':
            _call(g, None, 'cat' if cls != 'formula' else '1')
        E.check('registered-defaults-untouched-by-grading', target.default_values == snap)
    finally:
        target.clear_registered_defaults()
    E.check('defaults-cleared', target.default_values is None)
    return 'ok'


def harnesses(tier):
    hs = []
    T = tier == 'thorough'

    def add(fn, base, params, bounds, **kw):
        hs.append(Harness(pname(base, **params), fn, tuple(params.values()), FUNCS, bounds, STUBS, **kw))
    for cls in ('string', 'formula', 'numerical', 'matrix', 'singlelist', 'list'):
        L = (4 if T else 3) if cls in ('string', 'formula') else (3 if T else 2)
        for configured in ((False, True) if cls != 'list' else (True,)):
            for debug in (False, True):
                add(h_sequence, 'sequence', dict(cls=cls, configured=configured, debug=debug, length=L if not (configured and L > 2) else L - 1),
                    'all event sequences of that length', validate=False)
    for cls in ('string', 'formula', 'matrix', 'singlelist', 'list'):
        add(h_author_config, 'author_config', dict(cls=cls), 'construction + repeated grading')
    for cls in ('string', 'formula', 'list', 'item-base'):
        add(h_registered_defaults, 'registered_defaults', dict(cls=cls), 'kwargs / dict / empty / overriding configuration', validate=False)
    import vchecks.c08 as c08
    import vchecks.c09 as c09
    add(c09.h_suffix_isolation, 'suffix_isolation', {}, 'a metric-suffix grader built before / after / both: other graders and the class-level suffix table are unaffected')
    add(c08.h_matrix_messages, 'matrix_messages', dict(length=2), 'all sequences of 2 calls over 3 MatrixGraders x 4 inputs: no grader sees another one\'s wrong_msg', validate=False)
    add(c08.h_formula_messages, 'formula_messages', dict(length=2), 'all sequences of 2 calls over 3 FormulaGraders', validate=False)
    add(h_array_dim_history, 'array_dim_history', {}, '3 texts x 2 orders of a matrix-valued and a vector-valued evaluation of the same text', validate=False)
    add(h_default_removal, 'default_removal', {}, '4 grader classes x 3 default constants suppressed with None, then one fresh grader of every class', validate=False)
    add(h_debug_mix, 'debug_mix', {}, 'parent debug x subgrader debug x prior solo call x 4 subgrader kinds, symbolic samples', validate=False)
    add(h_shared_parser, 'shared_parser', dict(length=2), 'all sequences of 2 failing or fine calls (7 kinds) on one grader, each followed by a fresh string on another grader', validate=False)
    add(h_scopes, 'scopes', {}, '9 formulas incl. failing ones, symbolic variable value')
    add(h_negative_power_switch, 'negative_power_switch', {}, 'all sequences of 3 calls over 2 graders x 6 inputs', validate=False)
    return hs
