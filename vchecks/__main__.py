import argparse
import os
import sys

sys.setrecursionlimit(5000)


def main():
    ap = argparse.ArgumentParser()
    ap.add_argument('target')
    ap.add_argument('path', nargs='?')
    ap.add_argument('--tier', default=os.environ.get('VERIF_TIER', 'quick'), choices=['quick', 'thorough'])
    a = ap.parse_args()
    from symx import run
    if a.target == 'replay':
        sys.exit(run.replay(a.path))
    seed = int(os.environ.get('VERIF_SEED', '0') or 0)
    sys.exit(run.run_check('vchecks.' + a.target.lower(), a.tier, seed))


main()
