"""C18 - StringGrader matches exactly the inputs equal after the configured cleaning."""
import itertools

import z3

from symx import Harness, pname, sand, sor, simplies, siff, near_le, near_eq, snot, SymBool, Unsupported
from symx.stubs import shadow, sym_isinstance, sym_str
from symx.text import SymStr, SymChar, K, fresh_str, any_unicode, member, ranges, alphabet, caseless
import contextlib
from symx import rx

PROPERTY = 'C18'
EXPLANATION = ('The real StringGrader.clean_input / check_response / __call__ run on SYMBOLIC submissions (every string up to the length bound over all '
               'of Unicode: characters are z3 integers, the engine forks only on the character classes the code distinguishes) for all 16 '
               'combinations of the cleaning flags. An independent normaliser written from the property text is applied to the same symbolic '
               'characters; z3 decides on every path that the cleaned string equals the normalised one character by character (so no other '
               'character is ever dropped or altered) and that the verdict is "equal after normalisation". accept_any / accept_nonempty run with '
               'symbolic min_length / min_words; validation patterns run through a regex shim and, without any length bound, the language the '
               'code actually tests (pattern captured from its re.match call) is compared with the full-match language of the author\'s pattern.'
               " Sequences of calls over five grader configurations (what a refusal reports is a function of that grader's own options); the expected string arriving through the call's expect argument with leading/trailing whitespace.")
ASSUMPTIONS = ['a CRLF pair is one line break (leftmost pairs first), then LFCR pairs, then single tabs/CRs/LFs - the reading under which "line breaks become spaces" is unambiguous', 'case folding: ASCII letters are folded symbolically; case-insensitive configurations range over ASCII plus a listed table of caseless '
               'ranges (Latin-1 punctuation, Arabic digits, general punctuation, CJK symbols and ideographs, emoticons - every Unicode whitespace included); '
               'case-sensitive configurations range over all of Unicode', 'expected strings are concrete', 'lone surrogates excluded']
BOUNDS = {'quick': 'all strings of length <= 4 x 16 flag combinations; accept_any: length <= 4, min_length in 0..5, min_words in 0..3; validation: length <= 4 over a 12-character alphabet, 8 patterns',
          'thorough': 'all strings of length <= 6 (path budget per flag combination)'}
OUTSIDE = ['case folding of cased non-ASCII letters beyond the 12 listed pairs (the symbolic alphabet of the case-insensitive harnesses is ASCII plus caseless characters)', 'strings longer than the bound', 'non-ASCII characters changed by lower() in case-insensitive mode', 'regex features beyond the translated subset']
DEADLINE = {'quick': 600, 'thorough': 2400}
FUNCS = ['StringGrader.clean_input', 'StringGrader.check_response', 'StringGrader.construct_message', 'StringGrader.__call__', 'ItemGrader.check', 'AbstractGrader.__call__']
STUBS = ['stringgrader.str -> identity on symbolic strings', 'stringgrader.re -> ReShim (re.match / re.sub on symbolic strings through the validated regex translator)', 'voluptuous isinstance shadow']
EXPECTED = ['Cat  Dog', ' a b ', 'x', '', 'A\tb']


def _is(c, ch):
    return bool(c == ch)


def norm(chars, case_sensitive, strip, strip_all, clean_spaces):
    """independent normaliser over a list of SymChar / one-character strs (written from the property text, char-level only)"""
    chars = [K(c) if isinstance(c, str) else c for c in chars]
    n = len(chars)
    # line breaks: CRLF pairs are one break (leftmost first), then LFCR pairs among what is left, then every remaining tab / CR / LF
    drop = [False] * n          # second half of a pair
    used = [False] * n
    for first, second in (('\r', '\n'), ('\n', '\r')):
        i = 0
        while i + 1 < n:
            if not used[i] and not used[i + 1] and _is(chars[i], first) and _is(chars[i + 1], second):
                used[i] = used[i + 1] = True
                drop[i + 1] = True
                i += 2
            else:
                i += 1
    out = []
    for i, c in enumerate(chars):
        if drop[i]:
            continue
        if used[i] or _is(c, '\t') or _is(c, '\n') or _is(c, '\r'):
            out.append(K(' '))
        else:
            out.append(c)
    if not case_sensitive:
        out = [SymChar(z3.If(z3.And(c.c >= 65, c.c <= 90), c.c + 32, c.c)) for c in out]
    if strip:
        a, b = 0, len(out)
        while a < b and bool(out[a].isspace()):
            a += 1
        while b > a and bool(out[b - 1].isspace()):
            b -= 1
        out = out[a:b]
    if strip_all:
        out = [c for c in out if not _is(c, ' ')]
    if clean_spaces:
        res = []
        for c in out:
            if _is(c, ' ') and res and res[-1] is SPACE_MARK:
                continue
            if _is(c, ' '):
                res.append(SPACE_MARK)
            else:
                res.append(c)
        out = [K(' ') if c is SPACE_MARK else c for c in res]
    return out


SPACE_MARK = object()


# case-insensitive configurations: ASCII plus listed ranges of caseless characters (all Unicode whitespace is inside them); checked below
CASELESS = [(0x00, 0x7F), (0x80, 0xB4), (0xB6, 0xBF), (0x0660, 0x0669), (0x1680, 0x1680), (0x2000, 0x206F), (0x3000, 0x303F), (0x4E00, 0x9FFF), (0x1F600, 0x1F64F)]
assert all(chr(c).lower() == chr(c) for a, b in CASELESS[1:] for c in range(a, b + 1)), 'CASELESS table contains a cased character'
assert all(any(a <= ord(ch) <= b for a, b in CASELESS) for ch in map(chr, range(0x110000)) if ch.isspace()), 'CASELESS table misses a whitespace character'


def _alpha(case_sensitive):
    if case_sensitive:
        return any_unicode

    def f(v):
        return z3.Or([z3.And(v >= a, v <= b) for a, b in CASELESS])
    return f


def _eq_chars(a, b):
    if len(a) != len(b):
        return False
    return sand(*[x == y for x, y in zip(a, b)])


def _as_chars(s):
    return s.ch if isinstance(s, SymStr) else [K(c) for c in s]


def h_clean(E, cs, st, sa, cl, N):
    from mitxgraders import StringGrader
    import mitxgraders.stringgrader as SG
    s = fresh_str(E, 's', N, _alpha(cs))
    with shadow(SG, re=rx.ReShim(), str=sym_str), (contextlib.nullcontext() if cs else caseless()):
        g = StringGrader(answers=tuple(EXPECTED), case_sensitive=cs, strip=st, strip_all=sa, clean_spaces=cl)
        cleaned = g.clean_input(s)
        want = norm(_as_chars(s), cs, st, sa, cl)
        E.check('cleaned-equals-independent-normalisation', _eq_chars(_as_chars(cleaned), want))
        r = g(None, s)
    matches = False
    for e in EXPECTED:
        matches = sor(matches, _eq_chars(want, norm(list(e), cs, st, sa, cl)))
    E.check('verdict-iff-identical-after-normalisation', siff(r['ok'] is True, matches))
    E.check('no-partial-verdicts', r['ok'] in (True, False) and r['grade_decimal'] in (0, 1))
    return [len(_as_chars(s)), r['ok']]


PADDED = ['ab', ' ab', 'ab ', '\tab', 'ab\n', ' a  b ', 'a b', '  ']


def h_inferred_expect(E, st, sa, cl, N):
    """the expected string arrives through the call's expect argument (no configured answers): it is compared after exactly the configured
    normalisation - in particular its own leading/trailing whitespace survives when strip is off"""
    from mitxgraders import StringGrader
    import mitxgraders.stringgrader as SG
    expect = E.choice('expect', PADDED)
    s = fresh_str(E, 's', N, alphabet('ab \t'))
    with shadow(SG, re=rx.ReShim(), str=sym_str):
        g = StringGrader(strip=st, strip_all=sa, clean_spaces=cl)
        r = g(expect, s)
    want = norm(_as_chars(s), True, st, sa, cl)
    matches = _eq_chars(want, norm(list(expect), True, st, sa, cl))
    E.check('verdict-iff-identical-after-normalisation', siff(r['ok'] is True, matches))
    return [len(_as_chars(s)), r['ok']]


NONASCII_CASE = [('Émile', 'émile'), ('Émile', 'ÉMILE'), ('ωmega', 'ΩMEGA'), ('Жук', 'жУК'), ('straße', 'STRAßE'), ('ǆ', 'Ǆ'), ('naïve café', 'NAÏVE CAFÉ'), ('Ångström', 'ångström'),
                 ('ÇA', 'ça'), ('ñandú', 'ÑANDÚ'), ('Œuvre', 'œuvre'), ('ÿ', 'Ÿ')]


def h_nonascii_case(E, idx):
    """concrete companion for letters outside ASCII (the symbolic case mapping covers ASCII and caseless characters only): with case_sensitive off two
    spellings that differ in case only - in any alphabet - match; with it on they do not"""
    from mitxgraders import StringGrader
    a, b = NONASCII_CASE[idx]
    swap = E.fork_bool('swap')
    expect, sub = (b, a) if swap else (a, b)
    accept = E.fork_bool('through_validation_pattern')
    if accept:
        g = StringGrader(answers=expect, case_sensitive=False, validation_pattern=expect.lower().replace(' ', ' ') + '|zola')
    else:
        g = StringGrader(answers=expect, case_sensitive=False)
    E.check('case-insensitive-match-in-any-alphabet', g(None, sub)['ok'] is True and g(None, ' ' + expect + '\t')['ok'] is True)
    E.check('case-sensitive-grader-distinguishes', StringGrader(answers=expect, case_sensitive=True)(None, sub)['ok'] is False)
    return 'ok'


def _words(chars):
    n, inword = 0, False
    for c in chars:
        if bool(c.isspace()):
            inword = False
        elif not inword:
            n += 1
            inword = True
    return n


def h_accept_any(E, mode, explain, N, strip_all=False, clean_spaces=True):
    from mitxgraders import StringGrader
    from mitxgraders.exceptions import InvalidInput
    import mitxgraders.stringgrader as SG
    import voluptuous.schema_builder as VS
    import voluptuous.validators as VV
    s = fresh_str(E, 's', N, any_unicode)
    ml = E.int('min_length', 0, 5)
    mw = E.int('min_words', 0, 3)
    with shadow(SG, re=rx.ReShim(), str=sym_str), shadow(VS, isinstance=sym_isinstance), shadow(VV, isinstance=sym_isinstance):
        flags = dict(accept_any=True, accept_nonempty=True) if mode == 'both' else {mode: True}      # both switches on: still at least one character
        g = StringGrader(min_length=ml, min_words=mw, explain_minimums=explain, strip_all=strip_all, clean_spaces=clean_spaces, **flags)
        try:
            r = g(None, s)
            raised = None
        except InvalidInput as e:
            r, raised = None, str(e)
    cleaned = norm(_as_chars(s), True, True, strip_all, clean_spaces)
    need = ml
    if mode == 'accept_nonempty':
        need = E.mode == 'conc' and (max(ml, 1)) or (ml if False else None)
    nchars = len(cleaned)
    if mode in ('accept_nonempty', 'both'):
        long_enough = sand(nchars >= 1, ml <= nchars)
    else:
        long_enough = ml <= nchars
    accept = sand(long_enough, mw <= _words(cleaned))
    if explain == 'err':
        E.check('refused-by-error-iff-below-minimums', siff(raised is not None, snot(accept)))
        if raised is None:
            E.check('accepted-full-credit', r['ok'] is True)
    else:
        E.check('no-error-unless-explain_minimums-err', raised is None)
        E.check('accepted-iff-minimums-met', siff(r['ok'] is True, accept))
        if r['ok'] is not True:
            E.check('refusal-message-as-configured', (r['msg'] != '') == (explain == 'msg') and r['grade_decimal'] == 0)
    return 'ok'


SEQ_GRADERS = {
    'min-silent-wrongmsg': dict(accept_any=True, min_length=2, explain_minimums=None, wrong_msg='nope'),
    'min-silent': dict(accept_any=True, min_length=2, explain_minimums=None),
    'pattern-silent': dict(answers='ab', validation_pattern='[a-c]+', explain_validation=None),
    'words-explained': dict(accept_any=True, min_words=2, explain_minimums='msg'),
    'pattern-silent-wrongmsg': dict(answers='ab', validation_pattern='[a-c]+', explain_validation=None, wrong_msg='try again'),
}


def h_refusal_sequence(E, seq, N):
    """several StringGraders called one after the other in one process: what a refusal reports is a function of that grader's own options
    and that input only (silent refusal: msg '' unless the grader's own wrong_msg; explained refusal: the explanation)"""
    from mitxgraders import StringGrader
    import mitxgraders.stringgrader as SG
    import voluptuous.schema_builder as VS
    import voluptuous.validators as VV
    out = []
    with shadow(SG, re=rx.ReShim(), str=sym_str), shadow(VS, isinstance=sym_isinstance), shadow(VV, isinstance=sym_isinstance):
        graders = {k: StringGrader(**SEQ_GRADERS[k]) for k in set(seq)}
        for i, k in enumerate(seq):
            cfg = SEQ_GRADERS[k]
            s = fresh_str(E, 's%d' % i, N, alphabet('ab é'))
            r = graders[k](None, s)
            cleaned = norm(_as_chars(s), True, True, False, True)
            if 'min_length' in cfg:
                accept = len(cleaned) >= 2
            elif 'min_words' in cfg:
                accept = 2 <= _words(cleaned)
            else:
                accept = sand(len(cleaned) == 2, *([cleaned[0] == 'a', cleaned[1] == 'b'] if len(cleaned) == 2 else []))
            accept = bool(accept)
            E.check('accepted-iff-own-rule-met', (r['ok'] is True) == accept)
            if accept:
                E.check('accepted-message-empty', r['msg'] == '' and r['grade_decimal'] == 1)
            else:
                want = cfg.get('wrong_msg', '')
                if cfg.get('explain_minimums') == 'msg':
                    E.check('refusal-reports-own-configuration-only', r['msg'].startswith('Your response is too short') and r['grade_decimal'] == 0)
                else:
                    E.check('refusal-reports-own-configuration-only', r['msg'] == want and r['grade_decimal'] == 0)
            out.append(str(r['ok']))
    return ','.join(out)


PATTERNS = [r'cat|dog', r'(cat|dog)', r'[a-c]+', r'\d\d', r'x?y', r'(ab)*', r'a.b', r'ab$', r'^ab', r'a|b|cd']
VALPHA = alphabet('abcdtogxy 01')


def h_validation(E, pi, mode, explain, N):
    from mitxgraders import StringGrader
    from mitxgraders.exceptions import InvalidInput
    import mitxgraders.stringgrader as SG
    pat = PATTERNS[pi]
    s = fresh_str(E, 's', N, VALPHA)
    with shadow(SG, re=rx.ReShim(), str=sym_str):
        g = StringGrader(validation_pattern=pat, explain_validation=explain, accept_any=(mode == 'any'), answers=('cat', 'ab', 'y', '01', 'acb', 'a') if False else (),
                         invalid_msg='BAD')
        try:
            r = g(None, s) if mode == 'any' else g({'cat|dog': 'dog', '(cat|dog)': 'dog', '[a-c]+': 'ab', r'\d\d': '01', 'x?y': 'y', '(ab)*': 'abab', 'a.b': 'acb',
                                                     'ab$': 'ab', '^ab': 'ab', 'a|b|cd': 'cd'}[pat], s)
            raised = None
        except InvalidInput as e:
            r, raised = None, str(e)
    cleaned = norm(_as_chars(s), True, True, False, True)
    whole = SymBool(rx.sym_match(pat, [c.c for c in cleaned], full=True))
    if explain == 'err':
        E.check('pattern-must-match-entire-cleaned-submission', siff(raised is None, whole))
        if raised is not None:
            E.check('refused-with-configured-message', raised == 'BAD')
    else:
        E.check('no-error-unless-explain_validation-err', raised is None)
        E.check('pattern-must-match-entire-cleaned-submission', simplies(snot(whole), r['ok'] is False))
        if mode == 'any':
            E.check('accepted-when-pattern-matches', simplies(whole, r['ok'] is True))
        E.check('refusal-message-as-configured', simplies(snot(whole), (r['msg'] == 'BAD') == (explain == 'msg')))
    return 'ok'


class _Recorder(rx.ReShim):
    def __init__(self):
        self.seen = []

    def match(self, pattern, s, flags=0):
        self.seen.append(('match', pattern))
        return rx.ReShim.match(self, pattern, s, flags)

    def fullmatch(self, pattern, s, flags=0):
        self.seen.append(('fullmatch', pattern))
        return rx.ReShim.fullmatch(self, pattern, s, flags)


def h_validation_language(E, pi):
    """no length bound: the language the code tests vs the full-match language of the author's pattern (strings without tab/CR/LF, which cleaning removes)"""
    from mitxgraders import StringGrader
    import mitxgraders.stringgrader as SG
    pat = PATTERNS[pi]
    rec = _Recorder()
    with shadow(SG, re=rec):
        g = StringGrader(validation_pattern=pat, accept_any=True, explain_validation=None)
        g(None, 'probe')
    used = [p for p in rec.seen if p[1] != ' +']
    E.check('validation-call-captured', len(used) >= 1)
    kind, tested = used[-1]
    lang_code = rx.match_language(tested) if kind == 'match' else rx.fullmatch_language(tested)
    lang_spec = rx.fullmatch_language(pat)
    no_breaks = z3.Star(z3.Intersect(rx.ANYCHAR, z3.Complement(z3.Union(z3.Re('\n'), z3.Re('\r'), z3.Re('\t')))))
    verdict, w = rx.language_difference(z3.Intersect(lang_code, no_breaks), z3.Intersect(lang_spec, no_breaks))
    if verdict == 'differ':
        w = rx.z3_unescape(w)
        E.note('language-witness', w)
        # concrete confirmation through the public API
        import re
        r = StringGrader(validation_pattern=pat, accept_any=True, explain_validation=None)(None, 'Q' + w + 'Q' if False else w)
        whole = re.fullmatch(pat, w.strip()) is not None
        E.check('tested-language-equals-fullmatch-language', (r['ok'] is True) == whole)
    else:
        E.check('tested-language-equals-fullmatch-language', verdict == 'equal')
    return verdict


def selftest():
    from symx import text
    text.selftest()
    rx.selftest()


def harnesses(tier):
    hs = []
    T = tier == 'thorough'
    N = 6 if T else 4

    def add(fn, base, params, bounds, **kw):
        hs.append(Harness(pname(base, **params), fn, tuple(params.values()), FUNCS, bounds, STUBS, **kw))
    for cs, st, sa, cl in itertools.product((True, False), repeat=4):
        add(h_clean, 'clean', dict(case_sensitive=cs, strip=st, strip_all=sa, clean_spaces=cl, N=N), 'all Unicode strings of length <= %d' % N,
            max_paths=150000 if T else None)
    add(h_accept_any, 'accept', dict(mode='both', explain='err', N=3), 'accept_any and accept_nonempty both on; all Unicode strings, symbolic minimums')
    add(h_accept_any, 'accept', dict(mode='both', explain=None, N=3), 'accept_any and accept_nonempty both on; all Unicode strings, symbolic minimums')
    for mode in ('accept_any', 'accept_nonempty'):
        for explain in ('err', 'msg', None):
            add(h_accept_any, 'accept', dict(mode=mode, explain=explain, N=4 if T else 3), 'all Unicode strings, symbolic minimums')
        add(h_accept_any, 'accept', dict(mode=mode, explain='msg', N=4 if T else 3, strip_all=True, clean_spaces=False), 'all Unicode strings, symbolic minimums, strip_all')
        add(h_accept_any, 'accept', dict(mode=mode, explain=None, N=3, strip_all=False, clean_spaces=False), 'all Unicode strings, symbolic minimums, clean_spaces off')
    for st, sa, cl in itertools.product((True, False), repeat=3):
        add(h_inferred_expect, 'inferred_expect', dict(strip=st, strip_all=sa, clean_spaces=cl, N=4 if T else 3), '8 padded expect values x all strings of length <= 3 (quick) / 4 over {a, b, space, tab}')
    for i in range(len(NONASCII_CASE)):
        add(h_nonascii_case, 'nonascii_case', dict(i=i), '%s / %s' % NONASCII_CASE[i], validate=False)
    names = sorted(SEQ_GRADERS)
    for a in names:
        for b in names:
            hs.append(Harness(pname('refusal_sequence', first=a, then=b), h_refusal_sequence, ((a, b), 2), FUNCS, 'two calls, strings of length <= 2 over {a, b, space, e-acute}', STUBS))
    if T:
        for trio in itertools.product(names, repeat=3):
            hs.append(Harness(pname('refusal_sequence', seq='+'.join(trio)), h_refusal_sequence, (trio, 2), FUNCS, 'three calls, strings of length <= 2', STUBS))
    for pi in range(len(PATTERNS)):
        add(h_validation_language, 'validation_language', dict(p=pi), 'pattern %r, no length bound' % PATTERNS[pi], validate=False)
        for mode, explain in (('any', 'err'), ('any', None), ('match', 'msg')):
            add(h_validation, 'validation', dict(p=pi, mode=mode, explain=explain, N=5 if T else 4), 'pattern %r' % PATTERNS[pi])
    return hs
