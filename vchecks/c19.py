"""C19 - SumGrader accepts exactly the sums equal in value to the author's."""
import itertools

import z3

from symx import Harness, pname, sand, sor, simplies, siff, near_le, near_eq, snot, sif, smax, SymReal, uf
from symx.stubs import make_sym_sampler, wellformed

PROPERTY = 'C19'
EXPLANATION = ('SumGrader.perform_summation runs with both limits as z3 integers (any order) and an uninterpreted summand f(n): on every path the '
               'result must be the sum of f over exactly the integers between the limits with the configured parity (infinite limits replaced by '
               'the cutoff, -inf..-inf / inf..inf refused). The whole SumGrader call then runs with symbolic sampled values: index shifts, '
               'reversals and renamings of the summation variable are accepted for every sample, perturbed summands/limits are accepted exactly '
               'when |difference| <= tolerance at every sample, every subset of input_positions is honoured, and non-integer/complex limits, a '
               'summation variable with another meaning, blank fields and instructor-only variables raise student-facing errors while failures '
               'in the author\'s sum raise ConfigError.'
               ' All pairings of integer / non-integer / infinite limits typed by the student; summation-variable names that already mean something under every function restriction.')
ASSUMPTIONS = ['limits integer-valued in the stated range; the summand is an arbitrary function of n (uninterpreted) in perform_summation harnesses',
               'end-to-end harnesses: sampled variables arbitrary reals in their intervals, concrete formulas']
BOUNDS = {'quick': 'limits in [-12,12] both orders x even_odd 0,1,2; infinite limits with cutoff 3..6; end-to-end with samples 2',
          'thorough': 'limits in [-20,20]; cutoffs up to 10'}
OUTSIDE = ['IntegralGrader (scipy absent)', 'vector-valued summands', 'IEEE rounding of long sums', 'convergence of infinite sums (cutoff semantics only)']
DEADLINE = {'quick': 600, 'thorough': 1500}
FUNCS = ['SumGrader.perform_summation', 'SumGrader.evaluate_sum', 'SumGrader.gen_evaluations', 'SummationGraderBase.check/raw_check/structure_and_validate_input/'
         'validate_user_dummy_variable/get_limits_and_funcs', 'MathMixin.compare_evaluations/consolidate_results', 'expressions.evaluator', 'AbstractGrader.__call__']
STUBS = ['SymSampler', 'summand f(n): uninterpreted function in symbolic mode, 2**n in concrete replay']
INF = float('inf')


def _f(E):
    if E.mode == 'sym':
        f = uf('f')
        return lambda n: SymReal(f(z3.RealVal(int(n))))
    return lambda n: 2.0 ** int(n)


def _ref(f, lo, hi, even_odd):
    a, b = min(lo, hi), max(lo, hi)
    tot = 0
    for n in range(a, b + 1):
        if even_odd == 0 or (even_odd == 1 and n % 2 == 1) or (even_odd == 2 and n % 2 == 0):
            tot = tot + f(n)
    return tot


def h_sum_finite(E, K, even_odd):
    from mitxgraders import SumGrader
    lo = E.int('lower', -K, K)
    hi = E.int('upper', -K, K)
    f = _f(E)
    res = SumGrader.perform_summation(f, lo, hi, even_odd)
    # limits are concrete on this path now (range() forced them); read them back from the path condition
    lo_c = lo if isinstance(lo, int) else lo.__index__()
    hi_c = hi if isinstance(hi, int) else hi.__index__()
    E.check('sum-over-exactly-the-integers-between-limits', near_eq(res, _ref(f, lo_c, hi_c, even_odd)))
    return [lo_c, hi_c]


def h_sum_infinite(E, which, even_odd, cmax):
    from mitxgraders import SumGrader
    from mitxgraders.formulagrader.integralgrader import SummationError
    cutoff = E.fork_int('cutoff', 3, cmax)
    fin = E.int('finite', -3, 3)
    f = _f(E)
    lims = {'lo=-inf': (-INF, fin), 'hi=+inf': (fin, INF), 'both': (-INF, INF), 'swapped': (INF, fin), 'inf-inf': (INF, INF), 'ninf-ninf': (-INF, -INF)}[which]
    try:
        res = SumGrader.perform_summation(f, lims[0], lims[1], even_odd, infty_val=cutoff)
    except SummationError as e:
        E.check('degenerate-infinite-range-refused', which in ('inf-inf', 'ninf-ninf'))
        return 'raised'
    E.check('degenerate-infinite-range-refused', which not in ('inf-inf', 'ninf-ninf'))
    fc = fin if isinstance(fin, int) else fin.__index__()
    lo_c = -cutoff if lims[0] == -INF or (which == 'swapped' and False) else fc
    hi_c = cutoff if INF in lims else fc
    if which == 'both':
        lo_c, hi_c = -cutoff, cutoff
    if which == 'lo=-inf':
        lo_c, hi_c = -cutoff, fc
    E.check('infinite-limit-replaced-by-cutoff', near_eq(res, _ref(f, lo_c, hi_c, even_odd)))
    return [lo_c, hi_c]


# ------------------------------------------------------------------------------------------------ end to end
def _grader(E, **kw):
    from mitxgraders import SumGrader
    SX = make_sym_sampler(E, 'x', 1, 2)
    SD = make_sym_sampler(E, 'd', -1, 1)
    cfg = dict(answers={'lower': '1', 'upper': '4', 'summand': 'x*n+n^2', 'summation_variable': 'n'}, variables=['x', 'd'],
               sample_from={'x': SX(), 'd': SD()}, samples=2)
    cfg.update(kw)
    return SumGrader(**cfg), SX, SD


EQUIV = [['1', '4', 'x*n+n^2', 'n'], ['4', '1', 'n^2+n*x', 'n'], ['0', '3', 'x*(n+1)+(n+1)^2', 'n'], ['1', '4', 'x*k+k^2', 'k'],
         ['-4', '-1', '(-m)^2-x*m', 'm'], ['2', '5', 'x*(q-1)+(q-1)*(q-1)', 'q'], ['1', '2*2', 'x*n+n*n', 'n'], [' 1 ', '4', " x * n' + n' ^ 2 ", "n'"],
         ['0', '4', 'x*n+n^2', 'n']]
INEQ = [['1', '3', 'x*n+n^2', 'n'], ['1', '4', 'x*n+n^2+1', 'n'], ['1', '5', 'x*n+n^2', 'n'], ['1', '4', 'x*n', 'n'], ['2', '4', 'x*n+n^2', 'n']]


def h_e2e_equiv(E, idx, equal):
    g, SX, SD = _grader(E)
    inp = (EQUIV if equal else INEQ)[idx]
    r = g(None, list(inp))
    s_ok, c_ok = wellformed(r)
    E.check('wellformed', sand(s_ok, c_ok))
    if equal:
        E.check('equal-sum-accepted', r['ok'] is True and r['grade_decimal'] == 1)
    else:
        E.check('different-sum-rejected', r['ok'] is False and r['grade_decimal'] == 0)
    return str(r['ok'])


def h_e2e_tol(E, where, tolkind, even_odd):
    """perturbation d (a sampled variable): verdict decided by |difference| <= tol at EVERY sample"""
    tol = E.real('tol', 0, 3) if tolkind == 'abs' else tolkind
    g, SX, SD = _grader(E, tolerance=tol, even_odd=even_odd)
    inp = {'summand': ['1', '4', 'x*n+n^2+d', 'n'], 'one-term': ['1', '4', 'x*n+n^2+d*kronecker(n,2)', 'n']}[where]
    r = g(None, inp)
    nterms = {0: 4, 1: 2, 2: 2}[even_odd]
    terms = [n for n in range(1, 5) if even_odd == 0 or n % 2 == (1 if even_odd == 1 else 0)]
    oks = []
    for i in range(2):
        x, d = SX.draws[i], SD.draws[i]
        exp = sum(x * n + n * n for n in terms)
        delta = d * nterms if where == 'summand' else (d if 2 in terms else 0)
        bound = tol if tolkind == 'abs' else abs(exp) * (float(tolkind[:-1]) * 0.01)
        oks.append(near_le(abs(delta), bound))
    allok = sand(*oks)
    E.check('accepted-iff-within-tolerance-at-every-sample', sand(simplies(allok, r['ok'] is True), simplies(snot(allok), r['ok'] is False)))
    return str(r['ok'])


KEYS = ['lower', 'upper', 'summand', 'summation_variable']
VALS = {'lower': '1', 'upper': '4', 'summand': 'x*n+n^2', 'summation_variable': 'n'}
WRONG = {'lower': '2', 'upper': '3', 'summand': 'x*n', 'summation_variable': 'n'}


def h_positions(E, subset, order_idx, wrong_key):
    keys = [k for k, b in zip(KEYS, subset) if b]
    order = list(itertools.permutations(keys))[order_idx % max(1, len(list(itertools.permutations(keys))))]
    pos = {k: None for k in KEYS}
    for i, k in enumerate(order):
        pos[k] = i + 1
    g, SX, SD = _grader(E, input_positions=pos)
    vals = [(WRONG if k == wrong_key else VALS)[k] for k in order]
    r = g(None, vals if len(vals) > 1 else vals[0])
    bad = wrong_key in keys and wrong_key != 'summation_variable'
    E.check('input_positions-honoured', (r['ok'] is False) if bad else (r['ok'] is True))
    return str(r['ok'])


ERRS = {
    'noninteger-lower': (['1.5', '4', 'n', 'n'], 'SummationError'), 'noninteger-upper': (['1', '9/2', 'n', 'n'], 'SummationError'),
    'complex-limit': (['i', '4', 'n', 'n'], 'SummationError'), 'complex-typed-real-limit': (['0-i^2', '4', 'n', 'n'], 'SummationError'),
    'complex-typed-real-upper': (['1', '(1+i)*(1-i)+2', 'n', 'n'], 'SummationError'), 'complex-limit-i^4': (['i^4', '4', 'n', 'n'], 'SummationError'), 'var-is-variable': (['1', '4', 'x', 'x'], 'SummationError'),
    'var-is-constant': (['1', '4', 'pi', 'pi'], 'InvalidInput'), 'var-is-function': (['1', '4', 'sin', 'sin'], 'InvalidInput'),
    'var-invalid-name': (['1', '4', '2', '2n'], 'InvalidInput'), 'blank-lower': (['', '4', 'n', 'n'], 'MissingInput'),
    'blank-summand': (['1', '4', '', 'n'], 'MissingInput'), 'blank-var': (['1', '4', 'n', ''], 'MissingInput'),
    'instructor-var': (['1', '4', 'x*n+n^2+0*c', 'n'], 'UndefinedVariable'), 'instructor-var-limit': (['1+0*c', '4', 'x*n+n^2', 'n'], 'UndefinedVariable'),
    'instructor-var-after-unknown': (['1', '4', 'x*n+n^2+0*c', 'n'], 'UndefinedVariable'), 'instructor-var-limit-after-unknown': (['1', '4+c-c', 'x*n+n^2', 'n'], 'UndefinedVariable'),
    'inf-to-inf': (['infty', 'infty', 'n', 'n'], 'SummationError'), 'unknown-name': (['1', '4', 'x*n+zz', 'n'], 'UndefinedVariable'),
}


def h_errors(E, case):
    from mitxgraders.exceptions import MITxError, ConfigError, StudentFacingError
    SC = make_sym_sampler(E, 'c', 1, 2)
    g, SX, SD = _grader(E, variables=['x', 'd', 'c'], sample_from={'x': make_sym_sampler(E, 'xx', 1, 2)(), 'd': make_sym_sampler(E, 'dd', -1, 1)(), 'c': SC()},
                        instructor_vars=['not_a_name_of_this_problem', 'c', 'neither_this'] if case.endswith('-after-unknown') else ['c'])
    inp, cls = ERRS[case]
    try:
        r = g(None, list(inp))
        E.check('student-facing-error-raised', False)
        return 'returned ' + str(r['ok'])
    except MITxError as e:
        E.check('student-facing-error-raised', isinstance(e, StudentFacingError) and not isinstance(e, ConfigError))
        E.check('error-class', type(e).__name__ == cls)
        return type(e).__name__


DUMMY_NAMES = {'default-function': 'sin', 'another-default-function': 're', 'user-function': 'myf', 'constant': 'pi', 'user-constant': 'kk', 'variable': 'x',
               'number-like': '2n', 'fresh': 'q', 'primed': "n'", 'underscored': 'n_1', 'upper': 'K', 'camel': 'nMax', 'upper-underscore': 'M_2', 'long': 'index', 'braces (not a plain variable name)': 'n_{1}'}
RESTRICTIONS = {'none': {}, 'blacklist': dict(blacklist=['sin', 'cos', 're']), 'whitelist': dict(whitelist=['cos']), 'whitelist-none': dict(whitelist=[None])}


def h_dummy_names(E, name_kind, restriction):
    """a summation variable that already has a meaning (function - permitted or not -, constant, variable) is refused whatever the function restrictions
    of the grader are; a free name is accepted and the sum graded"""
    from mitxgraders.exceptions import MITxError, StudentFacingError, ConfigError
    g, SX, SD = _grader(E, user_functions={'myf': lambda t: t}, user_constants={'kk': 3.0}, **RESTRICTIONS[restriction])
    v = DUMMY_NAMES[name_kind]
    free = name_kind in ('fresh', 'primed', 'underscored', 'upper', 'camel', 'upper-underscore', 'long')
    try:
        r = g(None, ['1', '4', 'x*%s+%s^2' % (v, v), v])
    except MITxError as e:
        E.check('meaningful-or-invalid-dummy-name-refused-free-name-accepted', isinstance(e, StudentFacingError) and not isinstance(e, ConfigError) and not free)
        return type(e).__name__
    E.check('meaningful-or-invalid-dummy-name-refused-free-name-accepted', free and r['ok'] is True)
    return 'graded'


EMPTY = [(1, '2', '2'), (2, '3', '3'), (1, '4', '4'), (2, '-1', '-1'), (1, '0', '0'), (2, '2+1', '3'), (1, '-2', '-2')]


def h_empty_range(E, idx):
    """limits between which no integer of the configured parity lies: the sum is empty, i.e. 0 - graded like any other value, no error"""
    even_odd, lo, hi = EMPTY[idx]
    g, SX, SD = _grader(E, even_odd=even_odd, tolerance=0.001,
                        answers={'lower': lo, 'upper': hi, 'summand': 'x*n+n^2', 'summation_variable': 'n'})
    r = g(None, [hi, lo, 'x*n + 5', 'n'])
    s_ok, c_ok = wellformed(r)
    E.check('wellformed', sand(s_ok, c_ok))
    E.check('empty-sum-is-zero-and-graded', r['ok'] is True)
    r2 = g(None, ['1', '5', 'x*n', 'n'])
    E.check('nonempty-wrong-sum-rejected', r2['ok'] is False)
    return 'ok'


LIMITS = {'2': 2, '-3': -3, '5/2': 2.5, '-1.5': -1.5, '1/2': 0.5, 'infty': INF, '-infty': -INF, '4.0': 4, '2+x-x': 2, '1/2+x-x': 0.5}


def h_limit_pairs(E, lo, hi):
    """every pairing of integer / non-integer / infinite limits typed by the student: a finite non-integer limit is refused whatever the other limit is,
    inf..inf and -inf..-inf are refused, everything else is summed"""
    from mitxgraders.exceptions import MITxError
    from mitxgraders.formulagrader.integralgrader import SummationError
    g, SX, SD = _grader(E)
    vlo, vhi = LIMITS[lo], LIMITS[hi]
    bad = any(abs(v) != INF and int(v) != v for v in (vlo, vhi)) or (vlo == vhi and abs(vlo) == INF)
    try:
        r = g(None, [lo, hi, '0*x+1/2^abs(n)', 'n'])
    except SummationError:
        E.check('non-integer-or-degenerate-limits-refused-all-others-summed', bad)
        return 'refused'
    E.check('non-integer-or-degenerate-limits-refused-all-others-summed', not bad)
    return str(r['ok'])


AUTHOR_BAD = {'div-by-zero': {'lower': '0', 'upper': '2', 'summand': '1/n', 'summation_variable': 'n'},
              'noninteger': {'lower': '0.5', 'upper': '2', 'summand': 'n', 'summation_variable': 'n'},
              'undefined': {'lower': '0', 'upper': '2', 'summand': 'n*zz', 'summation_variable': 'n'}}


def h_author_error(E, case):
    from mitxgraders import SumGrader
    from mitxgraders.exceptions import ConfigError
    SX = make_sym_sampler(E, 'x', 1, 2)
    g = SumGrader(answers=AUTHOR_BAD[case], variables=['x'], sample_from={'x': SX()}, samples=1)
    try:
        g(None, ['1', '2', 'n*x', 'n'])
        E.check('author-failure-is-ConfigError', False)
    except ConfigError:
        E.check('author-failure-is-ConfigError', True)
    return 'raised'


def harnesses(tier):
    hs = []
    T = tier == 'thorough'
    K = 20 if T else 12

    def add(fn, base, params, bounds, **kw):
        hs.append(Harness(pname(base, **params), fn, tuple(params.values()), FUNCS, bounds, STUBS, **kw))
    for eo in (0, 1, 2):
        add(h_sum_finite, 'finite', dict(K=K, even_odd=eo), 'limits any integers in [-%d,%d], both orders' % (K, K))
        for which in ('lo=-inf', 'hi=+inf', 'both', 'swapped', 'inf-inf', 'ninf-ninf'):
            add(h_sum_infinite, 'infinite', dict(which=which, even_odd=eo, cmax=10 if T else 6), 'cutoff 3..%d, finite limit in [-3,3]' % (10 if T else 6))
    for i in range(len(EQUIV) - 1):
        add(h_e2e_equiv, 'e2e', dict(i=i, equal=True), 'symbolic samples: %s' % EQUIV[i])
    for i in range(len(INEQ)):
        add(h_e2e_equiv, 'e2e', dict(i=i, equal=False), 'symbolic samples: %s' % INEQ[i])
    for where in ('summand', 'one-term'):
        for tk in ('abs', '1%'):
            for eo in (0, 1, 2):
                add(h_e2e_tol, 'tol', dict(where=where, tol=tk, even_odd=eo), 'symbolic samples and tolerance')
    for subset in itertools.product((False, True), repeat=4):
        if not any(subset):
            continue
        for wrong in (None, 'lower', 'summand'):
            add(h_positions, 'positions', dict(subset=''.join('1' if b else '0' for b in subset), order=sum(subset), wrong=wrong), 'subset of student-entered fields')
            hs[-1].params = (subset, sum(subset), wrong)
    for i in range(len(EMPTY)):
        add(h_empty_range, 'empty_range', dict(i=i), 'even_odd=%d limits %s..%s' % EMPTY[i])
    for nk in DUMMY_NAMES:
        for rk in RESTRICTIONS:
            add(h_dummy_names, 'dummy_names', dict(name=nk, restriction=rk), 'symbolic samples')
    for lo in LIMITS:
        for hi in LIMITS:
            add(h_limit_pairs, 'limit_pairs', dict(lo=lo, hi=hi), 'student-typed limits; symbolic samples')
    for case in ERRS:
        add(h_errors, 'errors', dict(case=case), 'symbolic samples')
    for case in AUTHOR_BAD:
        add(h_author_error, 'author_error', dict(case=case), 'symbolic samples')
    return hs
