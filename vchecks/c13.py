"""C13 - sampled variable sets are complete and dependent values are consistent."""
import itertools
import numpy as np
import math

from symx import Harness, pname, sand, sor, simplies, siff, near_le, near_eq, snot, is_sym
from symx.stubs import make_sym_sampler

PROPERTY = 'C13'
EXPLANATION = ('sampling.gen_symbols_samples / DependentSampler.compute_sample and MathMixin.gen_var_and_func_samples / generate_variable_list run with '
               'author-defined samplers that hand out fresh z3 reals. The dependency structure among the variables (every edge a forked boolean), the '
               'declaration order and the formulas generated from the edges are enumerated; on every path z3 decides that each declared variable, '
               'dependent, numbered instance and unshadowed constant has a value, that each dependent equals its formula evaluated on the SAME sample '
               '(term equality for all independent values), and that cyclic or dangling dependencies raise ConfigError instead of looping or yielding '
               'a value. The numbered-variable regular expression is decided as a LANGUAGE (regex -> z3 regular expressions, no length bound).')
ASSUMPTIONS = ['dependent formulas are linear combinations generated from the edges (coefficients distinct primes) so that term equality identifies the formula',
               'independent samples arbitrary reals in [1,2]']
BOUNDS = {'quick': 'all DAGs on <= 4 variables (64 edge sets x 24 declaration orders), all directed graphs on 3 variables (cyclic included), chains of length 5, '
                   '2 samples; numbered indices incl. negative and multi-digit', 'thorough': 'all DAGs on 5 variables x 8 declaration orders'}
OUTSIDE = ['non-linear dependent formulas (value equality is by term)', 'array-valued dependents beyond the three listed forms', 'graphs beyond the bound']
DEADLINE = {'quick': 600, 'thorough': 1500}
FUNCS = ['sampling.gen_symbols_samples', 'sampling.DependentSampler.__init__/compute_sample', 'sampling.is_subset', 'MathMixin.gen_var_and_func_samples',
         'MathMixin.generate_variable_list', 'MathMixin.get_used_vars', 'math_helpers.numbered_vars_regexp', 'sampling.construct_constants', 'expressions.evaluator']
STUBS = ['SymSampler']
PRIMES = [2, 3, 5, 7, 11, 13, 17, 19, 23, 29, 31, 37, 41, 43, 47]
PERMS4 = list(itertools.permutations(range(4)))


def _formula(i, deps, names, coef):
    terms = ['%d*%s' % (coef[(i, j)], names[j]) for j in deps]
    return ' + '.join(terms + [str(100 + i)])


def _coefs(n):
    it = iter(PRIMES * 3)
    return {(i, j): next(it) for i in range(n) for j in range(n) if i != j}


def h_dag(E, n, nperm):
    """node i may depend on nodes j > i (acyclic by construction); names are assigned through a forked permutation of declaration order"""
    from mitxgraders.sampling import gen_symbols_samples, DependentSampler
    from mitxgraders.helpers.calc.mathfuncs import DEFAULT_FUNCTIONS, DEFAULT_SUFFIXES
    edges = {(i, j): E.fork_bool('e%d_%d' % (i, j)) for i in range(n) for j in range(i + 1, n)}
    perms = list(itertools.permutations(range(n)))
    step = max(1, len(perms) // nperm)
    order = E.choice('order', perms[::step][:nperm])
    names = ['v%d' % k for k in range(n)]
    coef = _coefs(n)
    S = make_sym_sampler(E, 's', 1, 2)
    sample_from = {}
    deps = {}
    for i in range(n):
        d = [j for j in range(i + 1, n) if edges[(i, j)]]
        deps[i] = d
        sample_from[names[i]] = DependentSampler(formula=_formula(i, d, names, coef)) if d else S()
    symbols = [names[k] for k in order]
    consts = {'c': 7.5, 'pi': math.pi, names[1]: 123.0}       # a constant shadowed by variable v1 must not leak into the samples
    out = gen_symbols_samples(symbols, 2, {k: sample_from[k] for k in symbols}, DEFAULT_FUNCTIONS, DEFAULT_SUFFIXES, consts)
    E.check('two-samples', len(out) == 2)
    n_indep = sum(1 for i in range(n) if not deps[i])
    E.check('one-draw-per-independent-per-sample', len(S.draws) == 2 * n_indep)
    for sample in out:
        E.check('every-variable-and-unshadowed-constant-has-a-value', set(sample.keys()) == set(names) | {'c', 'pi'})
        E.check('constants-carried', sample['c'] == 7.5 and sample['pi'] == math.pi)
        vals = {}

        def val(i):
            if i not in vals:
                if not deps[i]:
                    vals[i] = sample[names[i]]
                else:
                    vals[i] = sum(coef[(i, j)] * val(j) for j in deps[i]) + (100 + i)
            return vals[i]
        E.check('dependent-equals-formula-on-same-sample', sand(*[near_eq(sample[names[i]], val(i)) for i in range(n)]))
        if not deps[1]:
            E.check('shadowed-constant-not-used', any(sample[names[1]] is d for d in S.draws))
    E.check('samples-use-fresh-draws', all(a is not b for a, b in zip([out[0][names[i]] for i in range(n) if not deps[i]],
                                                                      [out[1][names[i]] for i in range(n) if not deps[i]])))
    return [sum(len(d) for d in deps.values())]


def _has_cycle(n, adj):
    color = {}

    def dfs(u):
        color[u] = 1
        for v in adj[u]:
            if color.get(v) == 1 or (v not in color and dfs(v)):
                return True
        color[u] = 2
        return False
    return any(u not in color and dfs(u) for u in range(n))


def h_digraph(E, n, dangling):
    """arbitrary directed dependency graph (cycles and self-loops allowed) plus optional dangling reference"""
    from mitxgraders.sampling import gen_symbols_samples, DependentSampler
    from mitxgraders.exceptions import ConfigError
    from mitxgraders.helpers.calc.mathfuncs import DEFAULT_FUNCTIONS, DEFAULT_SUFFIXES
    edges = {(i, j): E.fork_bool('e%d_%d' % (i, j)) for i in range(n) for j in range(n)}
    names = ['v%d' % k for k in range(n)]
    coef = {(i, j): PRIMES[i * n + j] for i in range(n) for j in range(n)}
    S = make_sym_sampler(E, 's', 1, 2)
    adj = {i: [j for j in range(n) if edges[(i, j)]] for i in range(n)}
    sample_from = {}
    for i in range(n):
        if adj[i] or (dangling and i == 0):
            terms = ['%d*%s' % (coef[(i, j)], names[j]) for j in adj[i]] + (['zz'] if dangling and i == 0 else []) + [str(100 + i)]
            sample_from[names[i]] = DependentSampler(formula=' + '.join(terms))
        else:
            sample_from[names[i]] = S()
    cyclic = _has_cycle(n, adj)
    try:
        out = gen_symbols_samples(list(names), 1, sample_from, DEFAULT_FUNCTIONS, DEFAULT_SUFFIXES, {})
        err = None
    except ConfigError as e:
        out, err = None, str(e)
    E.check('cyclic-or-dangling-iff-ConfigError', (err is not None) == (cyclic or dangling))
    if err is not None:
        E.check('error-names-the-problem', ('undefined' in err) if (dangling and 'undefined' in err) else ('Circular' in err or 'undefined' in err))
        return 'ConfigError'
    sample = out[0]
    vals = {}

    def val(i):
        if i not in vals:
            vals[i] = sample[names[i]] if not adj[i] else sum(coef[(i, j)] * val(j) for j in adj[i]) + (100 + i)
        return vals[i]
    E.check('dependent-equals-formula-on-same-sample', sand(*[near_eq(sample[names[i]], val(i)) for i in range(n)]))
    return 'values'


def h_chain(E, length, reverse):
    """long dependency chain declared in the worst order"""
    from mitxgraders import FormulaGrader, DependentSampler
    S = make_sym_sampler(E, 's', 1, 2)
    names = ['w%d' % k for k in range(length)]
    sf = {names[0]: S()}
    for k in range(1, length):
        sf[names[k]] = DependentSampler(formula='%s + %d' % (names[k - 1], k))
    order = list(reversed(names)) if reverse else names
    g = FormulaGrader(answers=names[-1], variables=order, sample_from=sf, samples=2)
    var_samples, _ = g.gen_var_and_func_samples(names[-1], {}, [names[-1]])
    for i, sample in enumerate(var_samples):
        base = S.draws[i]
        E.check('chain-values', sand(*[near_eq(sample[names[k]], base + k * (k + 1) // 2) for k in range(length)]))
    r = g(None, '%s + %d' % (names[0], length * (length - 1) // 2))
    E.check('graded-with-consistent-chain', r['ok'] is True)
    return 'ok'


def h_numbered(E, case):
    """numbered-variable instances appearing in the expressions are sampled from their base name's sampling set"""
    from mitxgraders import FormulaGrader, DependentSampler
    SA = make_sym_sampler(E, 'a', 1, 2)
    SB = make_sym_sampler(E, 'b', 10, 20)
    g = FormulaGrader(answers='a_{3} + 2*a_{-12} + b_{0}', variables=['x', 'd', 'a_{7}'], numbered_vars=['a', 'b'],
                      sample_from={'a': SA(), 'b': SB(), 'x': [3, 4], 'd': DependentSampler(formula='2*x'), 'a_{7}': [100, 101]}, samples=2)
    student = {'same': 'a_{3} + 2*a_{-12} + b_{0}', 'extra': 'a_{3} + 2*a_{-12} + b_{0} + 0*a_{5}*b_{10}', 'collide': 'a_{3} + 2*a_{-12} + b_{0} + 0*a_{7}'}[case]
    var_samples, _ = g.gen_var_and_func_samples(student, {}, ['a_{3} + 2*a_{-12} + b_{0}'])
    inst = {'a_{3}', 'a_{-12}', 'b_{0}'} | ({'a_{5}', 'b_{10}'} if case == 'extra' else set())
    for sample in var_samples:
        E.check('every-instance-variable-dependent-constant-present', set(sample.keys()) == inst | {'x', 'd', 'a_{7}', 'pi', 'e', 'i', 'j'})
        E.check('numbered-instances-from-base-sampler', sand(*[sand(sample[k] >= 1, sample[k] <= 2) if k.startswith('a_') else sand(sample[k] >= 10, sample[k] <= 20)
                                                               for k in inst]))
        E.check('plain-variable-named-like-instance-keeps-own-sampler', 100 <= sample['a_{7}'] <= 101)
        E.check('dependent-consistent', sample['d'] == 2 * sample['x'])
    E.check('fresh-draw-per-instance-per-sample', len(SA.draws) == 2 * len([k for k in inst if k.startswith('a_')])
            and len(SB.draws) == 2 * len([k for k in inst if k.startswith('b_')]))
    r = g(None, student)
    E.check('graded-correct', r['ok'] is True)
    return 'ok'


def h_numbered_base_also_variable(E):
    """a numbered-variable base name may also be an ordinary variable (or share its name with nothing else): both get values, each from its own sampling set"""
    from mitxgraders import FormulaGrader
    SA = make_sym_sampler(E, 'a', 1, 2)
    g = FormulaGrader(answers='a + a_{1} + x', variables=['a', 'x'], numbered_vars=['a'], sample_from={'a': SA(), 'x': [3, 4]}, samples=2)
    var_samples, _ = g.gen_var_and_func_samples('a + a_{1} + x + 0*a_{2}', {}, ['a + a_{1} + x'])
    for sample in var_samples:
        E.check('every-instance-variable-dependent-constant-present', set(sample.keys()) == {'a', 'x', 'a_{1}', 'a_{2}', 'pi', 'e', 'i', 'j'})
        E.check('numbered-instances-from-base-sampler', sand(*[sand(sample[k] >= 1, sample[k] <= 2) for k in ('a', 'a_{1}', 'a_{2}')]))
    r = g(None, 'x + a_{1} + a')
    E.check('graded-correct', r['ok'] is True)
    return 'ok'


def h_dependent_array(E, kind):
    """dependent variables whose value is a vector or a matrix (symbolic entries): every sample holds them, equal entry by entry to their formula on
    the other values of the same sample, in any declaration order"""
    from mitxgraders import MatrixGrader, DependentSampler
    from mitxgraders.sampling import VariableSamplingSet
    from mitxgraders.helpers.calc.math_array import MathArray
    import voluptuous
    cnt = [0]

    class VecSampler(VariableSamplingSet):
        schema_config = voluptuous.Schema({})

        def gen_sample(self):
            cnt[0] += 1
            a = np.empty((2,), dtype=object)
            for i in range(2):
                a[i] = E.real('v%d_%d' % (cnt[0], i), 1, 2)
            return MathArray(a.astype(float) if E.mode == 'conc' else a)
    SX = make_sym_sampler(E, 'x', 1, 2)
    formula = {'scaled-vector': 'x*v', 'matrix-literal': '[[x,0],[0,0-x]]', 'sum-of-vectors': 'v+v+[x,1]'}[kind]
    order = E.choice('declaration_order', [['w', 'x', 'v'], ['x', 'v', 'w'], ['v', 'w', 'x']])
    g = MatrixGrader(answers='w', variables=order, sample_from={'x': SX(), 'v': VecSampler(), 'w': DependentSampler(formula=formula)}, samples=2, max_array_dim=2)
    var_samples, _ = g.gen_var_and_func_samples('w', {}, ['w'])
    for sample in var_samples:
        x, v, w = sample['x'], sample['v'], sample['w']
        if kind == 'scaled-vector':
            ok = sand(w.shape == (2,), *[near_eq(w[i], x * v[i]) for i in range(2)])
        elif kind == 'matrix-literal':
            ok = sand(w.shape == (2, 2), near_eq(w[0, 0], x), near_eq(w[1, 1], -x), near_eq(w[0, 1], 0), near_eq(w[1, 0], 0))
        else:
            ok = sand(w.shape == (2,), near_eq(w[0], 2 * v[0] + x), near_eq(w[1], 2 * v[1] + 1))
        E.check('dependent-consistent', ok)
    return 'ok'


def h_constant_override(E, name):
    """a user constant that re-uses the name of a default constant (warnings suppressed) has the USER's value in every sample, and dependents see it"""
    from mitxgraders import FormulaGrader, DependentSampler
    c = E.real('user_value', 5, 6)
    SX = make_sym_sampler(E, 'x', 1, 2)
    g = FormulaGrader(answers='d', variables=['x', 'd'], user_constants={name: c}, suppress_warnings=True,
                      sample_from={'x': SX(), 'd': DependentSampler(formula='%s*x' % name)}, samples=2)
    var_samples, _ = g.gen_var_and_func_samples('d', {}, ['d'])
    for sample in var_samples:
        E.check('user-constant-overrides-default-of-the-same-name', near_eq(sample[name], c))
        E.check('dependent-consistent', near_eq(sample['d'], c * sample['x']))
    return 'ok'


def h_dependent_suffix(E):
    """dependent formulas are evaluated with the grader's OWN suffix table: with metric_suffixes on, `2k*x` is a valid dependency and equals 2000 x"""
    from mitxgraders import FormulaGrader, DependentSampler
    SX = make_sym_sampler(E, 'x', 1, 2)
    g = FormulaGrader(answers='d + c', variables=['x', 'd', 'c'], metric_suffixes=True,
                      sample_from={'x': SX(), 'd': DependentSampler(formula='2k*x'), 'c': DependentSampler(formula='d*50%+1m')}, samples=2)
    var_samples, _ = g.gen_var_and_func_samples('d + c', {}, ['d + c'])
    for sample in var_samples:
        E.check('dependent-consistent', sand(near_eq(sample['d'], 2000 * sample['x']), near_eq(sample['c'], sample['d'] * 0.5 + 0.001)))
    r = g(None, 'c + 2000*x')
    E.check('graded-correct', r['ok'] is True)
    return 'ok'


BAD_NUMBERED = ['a_{03}', 'a_{-0}', 'a_{1.5}', 'A_{1}', 'a_{}', 'a_{+1}', 'ab_{1}', 'a_{1}x', 'a_{1}_{2}']


def h_numbered_bad(E, idx):
    from mitxgraders import FormulaGrader
    from mitxgraders.exceptions import StudentFacingError
    SA = make_sym_sampler(E, 'a', 1, 2)
    g = FormulaGrader(answers='a_{1}', numbered_vars=['a'], sample_from={'a': SA()}, samples=1)
    try:
        r = g(None, 'a_{1} + 0*' + BAD_NUMBERED[idx])
        E.check('non-instance-not-sampled', False)
        return 'graded'
    except StudentFacingError as e:
        E.check('non-instance-not-sampled', True)
        return type(e).__name__


def h_numbered_language(E, heads_key):
    """no length bound: the language of numbered_vars_regexp(heads) over printable ASCII strings equals  head _{ (0 | -?[1-9][0-9]*) }"""
    import z3
    from symx import rx
    from mitxgraders.helpers.math_helpers import numbered_vars_regexp
    heads = {'one': ['a'], 'two': ['b', 'Cat'], 'prefixes': ['x', 'xy', 'x_1'], 'special': ['a.b', 'c+']}[heads_key]
    pat = numbered_vars_regexp(heads).pattern
    code = rx.match_language(pat)
    lit = lambda t: z3.Re(z3.StringVal(t))   # noqa
    digit, nz = z3.Range('0', '9'), z3.Range('1', '9')
    num = z3.Union(lit('0'), z3.Concat(z3.Option(lit('-')), nz, z3.Star(digit)))
    hs_ = [lit(h) for h in heads]
    spec = z3.Concat(z3.Union(hs_) if len(hs_) > 1 else hs_[0], lit('_{'), num, lit('}'))
    ascii_ = z3.Star(z3.Range(' ', '~'))      # printable ASCII: names reaching the regexp come from the parser and contain no control characters
    # (with '$' the pattern also accepts a trailing newline, which no parsed name can contain)
    verdict, w = rx.language_difference(z3.Intersect(code, ascii_), z3.Intersect(spec, ascii_))
    if verdict == 'differ':
        import re
        w = rx.z3_unescape(w)
        m = numbered_vars_regexp(heads).match(w)
        in_spec = re.fullmatch('(?:%s)_{(?:0|-?[1-9][0-9]*)}' % '|'.join(map(re.escape, heads)), w) is not None
        E.check('numbered-regexp-language-is-exactly-the-instances', (m is not None) == in_spec)
        E.note('witness', w)
    else:
        E.check('numbered-regexp-language-is-exactly-the-instances', verdict == 'equal')
    # the two capture groups are the full name and the head
    m = numbered_vars_regexp(heads).match(heads[-1] + '_{-12}')
    E.check('captures-full-name-and-head', m is not None and m.groups() == (heads[-1] + '_{-12}', heads[-1]))
    return verdict


def harnesses(tier):
    hs = []
    T = tier == 'thorough'

    def add(fn, base, params, bounds, **kw):
        hs.append(Harness(pname(base, **params), fn, tuple(params.values()), FUNCS, bounds, STUBS, **kw))
    add(h_dag, 'dag', dict(n=2, nperm=2), 'all DAGs, all declaration orders')
    add(h_dag, 'dag', dict(n=3, nperm=6), 'all DAGs, all declaration orders')
    add(h_dag, 'dag', dict(n=4, nperm=24), 'all 64 edge sets x 24 declaration orders')
    if T:
        add(h_dag, 'dag', dict(n=5, nperm=8), 'all 1024 edge sets x 8 declaration orders', max_paths=200000)
    for dang in (False, True):
        add(h_digraph, 'digraph', dict(n=2, dangling=dang), 'all directed graphs incl. self-loops')
        add(h_digraph, 'digraph', dict(n=3, dangling=dang), 'all 512 directed graphs incl. self-loops')
    for rev in (False, True):
        add(h_chain, 'chain', dict(length=5, reverse=rev), 'chain of 5 through FormulaGrader')
    for case in ('same', 'extra', 'collide'):
        add(h_numbered, 'numbered', dict(case=case), 'numbered instances with negative / multi-digit indices')
    for hk in ('one', 'two', 'prefixes', 'special'):
        add(h_numbered_language, 'numbered_language', dict(heads=hk), 'regex language over all printable-ASCII strings, no length bound', validate=False)
    for kind in ('scaled-vector', 'matrix-literal', 'sum-of-vectors'):
        add(h_dependent_array, 'dependent_array', dict(kind=kind), 'symbolic entries, 3 declaration orders (array literals with symbolic entries are followed by the concrete replay only)',
            expect_inconclusive=(kind != 'scaled-vector'))
    for name in ('e', 'pi'):
        add(h_constant_override, 'constant_override', dict(name=name), 'symbolic user value')
    add(h_dependent_suffix, 'dependent_suffix', {}, 'symbolic draws, metric and percent suffixes inside dependent formulas')
    add(h_numbered_base_also_variable, 'numbered_base_also_variable', {}, 'symbolic draws')
    for i in range(len(BAD_NUMBERED)):
        add(h_numbered_bad, 'numbered_bad', dict(i=i), repr(BAD_NUMBERED[i]))
    return hs
