"""C08 - among alternative answers the student receives the best-scoring one."""
import itertools

from symx import Harness, pname, sand, sor, simplies, siff, near_le, near_eq, snot, sif, smax
from symx.stubs import make_table_grader, wellformed

PROPERTY = 'C08'
EXPLANATION = ('ItemGrader.check (and the real StringGrader / SingleListGrader on top of it) is run with k alternative answers whose earned credits '
               'are z3 reals in [0,1] and whose feedback-message lengths are chosen symbolically from a palette with ties. On every path z3 decides: '
               'grade = max over alternatives; the reported alternative has maximal grade and, among those, maximal message length; listing the '
               'same alternatives in EVERY order (all k! in the same path) gives the same grade and message length; wrong_msg is shown exactly '
               'when the best grade is 0 and the winning message is empty.')
ASSUMPTIONS = ['credits are arbitrary reals in [0,1]; messages range over a palette of lengths 0..2 per alternative (letters identify the alternative)']
BOUNDS = {'quick': 'k<=3 alternatives (table-driven, credits in [0,1]), all 3! listing orders; StringGrader with 3 alternatives incl. a tuple-valued expect; SingleListGrader as subgrader user',
          'thorough': 'k<=4 alternatives with all 4! orders (path budget), k=5 without reorderings'}
OUTSIDE = ['more alternatives than the bound', 'IEEE rounding']
DEADLINE = {'quick': 600, 'thorough': 1800}
FUNCS = ['ItemGrader.check', 'ItemGrader.validate_single_answer/schema_answers', 'StringGrader.check_response', 'AbstractGrader.__call__',
         'AbstractGrader.grade_decimal_to_ok']
STUBS = ['TableGrader (author-defined ItemGrader returning table credit and palette message)']
LETTERS = 'abcde'


def h_alts(E, k, with_wrong, reorder, full):
    from mitxgraders.baseclasses import ItemGrader
    exps = ['e%d' % i for i in range(k)]
    T = {(e, 's'): E.real('g_%s' % e, 0, 1, lo_open=not full, hi_open=not full) for e in exps}
    ml = [E.fork_int('len%d' % i, 0, 2) for i in range(k)]
    M = {(exps[i], 's'): LETTERS[i] * ml[i] for i in range(k)}
    TG = make_table_grader(T, msgs=M)
    wrong = 'WRONG' if with_wrong else ''

    def run(order):
        g = TG(answers=tuple(exps[i] for i in order), wrong_msg=wrong)
        return g(None, 's')
    r = run(range(k))
    s_ok, c_ok = wellformed(r)
    E.check('wellformed', sand(s_ok, c_ok))
    grades = [T[(e, 's')] for e in exps]
    best = grades[0]
    for x in grades[1:]:
        best = smax(best, x)
    E.check('grade-is-maximum', near_eq(r['grade_decimal'], best))
    msg = r['msg']
    is_wrong = msg == 'WRONG' and with_wrong
    if msg and not is_wrong:
        i = LETTERS.index(msg[0])
        E.check('reported-has-max-grade', near_eq(grades[i], best))
        E.check('reported-has-longest-message', sand(*[simplies(near_eq(grades[j], best), ml[j] <= len(msg)) for j in range(k)]))
        E.check('message-intact', msg == LETTERS[i] * ml[i])
    else:
        E.check('empty-only-if-all-best-empty', sand(*[simplies(near_eq(grades[j], best), ml[j] == 0) for j in range(k)]))
    E.check('wrong_msg-iff-zero-and-no-message', siff(is_wrong, sand(with_wrong, near_eq(best, 0),
                                                                     sand(*[simplies(near_eq(grades[j], best), ml[j] == 0) for j in range(k)]))))
    if reorder:
        for order in itertools.permutations(range(k)):
            if list(order) == list(range(k)):
                continue
            r2 = run(order)
            E.check('order-independent-grade', near_eq(r2['grade_decimal'], r['grade_decimal']))
            E.check('order-independent-message-length', len(r2['msg']) == len(r['msg']))
    return [str(r['ok']), len(msg)]


def h_string(E, inp):
    """real StringGrader: several alternatives (one tuple-valued) with symbolic credits"""
    from mitxgraders import StringGrader
    c = [E.real('c%d' % i, 0, 1) for i in range(3)]
    answers = ({'expect': 'cat', 'grade_decimal': c[0], 'msg': 'm0'},
               {'expect': ('cat', 'dog'), 'grade_decimal': c[1], 'msg': 'mm1'},
               {'expect': 'dog', 'grade_decimal': c[2], 'msg': ''})
    g = StringGrader(answers=answers, wrong_msg='WRONG')
    r = g(None, inp)
    s_ok, c_ok = wellformed(r)
    E.check('wellformed', sand(s_ok, c_ok))
    matching = {'cat': [0, 1], 'dog': [1, 2], 'eel': []}[inp]
    if not matching:
        E.check('no-match-zero-with-wrong_msg', near_eq(r['grade_decimal'], 0) and r['msg'] == 'WRONG')
        return 'none'
    best = c[matching[0]]
    for i in matching[1:]:
        best = smax(best, c[i])
    E.check('grade-is-maximum', near_eq(r['grade_decimal'], best))
    msgs = ['m0', 'mm1', '']
    # the reported message belongs to an alternative of maximal grade and is the longest among those (wrong_msg if best is 0 and message empty)
    cands = []
    for i in matching:
        longest = sand(*[simplies(near_eq(c[j], best), len(msgs[j]) <= len(msgs[i])) for j in matching])
        shown = msgs[i]
        ok_i = sand(near_eq(c[i], best), longest)
        if shown == '':
            cands.append(sand(ok_i, sor(sand(near_eq(best, 0), r['msg'] == 'WRONG'), sand(snot(near_eq(best, 0)), r['msg'] == ''))))
        else:
            cands.append(sand(ok_i, r['msg'] == shown))
    E.check('message-of-best-longest', sor(*cands))
    return [str(r['ok']), r['msg']]


def h_same_expect(E, order):
    """alternatives that share the same expect value but differ in credit / message are all live"""
    from mitxgraders import StringGrader
    c = [E.real('c%d' % i, 0, 1) for i in range(3)]
    alts = [{'expect': 'cat', 'grade_decimal': c[0], 'msg': 'm'}, {'expect': 'cat', 'grade_decimal': c[1], 'msg': 'mmm'}, {'expect': ('dog', 'cat'), 'grade_decimal': c[2], 'msg': 'mm'}]
    perm = list(itertools.permutations(range(3)))[order]
    g = StringGrader(answers=tuple(alts[i] for i in perm))
    r = g(None, 'cat')
    best = smax(smax(c[0], c[1]), c[2])
    E.check('grade-is-maximum', near_eq(r['grade_decimal'], best))
    lens = [1, 3, 2]
    if r['msg'] in ('m', 'mmm', 'mm'):
        i = ['m', 'mmm', 'mm'].index(r['msg'])
        E.check('reported-has-max-grade', near_eq(c[i], best))
        E.check('reported-has-longest-message', sand(*[simplies(near_eq(c[j], best), lens[j] <= lens[i]) for j in range(3)]))
    else:
        E.check('message-of-an-alternative', False)
    return r['msg']


def h_formula_messages(E, length):
    """comparer-based graders (FormulaGrader): which message is shown depends on this call only - wrong_msg exactly when the best grade is 0 and no
    specific message applies - whatever graders were called before (sequence of calls over three graders, symbolic samples)"""
    from mitxgraders import FormulaGrader
    from symx.stubs import make_sym_sampler
    S = make_sym_sampler(E, 'x', 1, 2)
    mk = lambda **kw: FormulaGrader(variables=['x'], sample_from={'x': S()}, samples=1, **kw)   # noqa
    graders = {'A': mk(answers='x', wrong_msg='WRONG'), 'B': mk(answers='x'),
               'C': mk(answers=({'expect': 'x', 'msg': 'right'}, {'expect': '2*x', 'grade_decimal': 0, 'msg': 'm'}, {'expect': '3*x', 'grade_decimal': 0.5, 'msg': 'half'}), wrong_msg='W')}
    want = {('A', 'x'): (1, ''), ('A', 'x+10'): (0, 'WRONG'), ('B', 'x'): (1, ''), ('B', 'x+10'): (0, ''), ('C', 'x'): (1, 'right'), ('C', '2*x'): (0, 'm'),
            ('C', '3*x'): (0.5, 'half'), ('C', 'x+10'): (0, 'W')}
    keys = sorted(want)
    out = []
    for step in range(length):
        gname, inp = E.choice('call%d' % step, keys)
        r = graders[gname](None, inp)
        grade, msg = want[(gname, inp)]
        E.check('grade-is-maximum', near_eq(r['grade_decimal'], grade))
        E.check('message-depends-on-this-call-only', r['msg'] == msg)
        out.append(r['msg'])
    return out


def h_string_alt_sequences(E, length):
    """one StringGrader with a zero-credit alternative whose own message is SHORTER than the grader's wrong_msg: in every sequence of calls (and for every
    item of one ListGrader call through the same grader object) a submission matching that alternative shows its message, a non-matching one wrong_msg"""
    from mitxgraders import StringGrader, ListGrader
    g = StringGrader(answers=({'expect': 'cat', 'msg': 'yes'}, {'expect': 'dog', 'grade_decimal': 0, 'msg': 'm'}, {'expect': 'cow', 'grade_decimal': 0.5, 'msg': 'half'}),
                     wrong_msg='a much longer generic message')
    want = {'cat': (1, 'yes'), 'dog': (0, 'm'), 'cow': (0.5, 'half'), 'eel': (0, 'a much longer generic message'), '': (0, 'a much longer generic message')}
    keys = sorted(want)
    seq = [E.choice('call%d' % k, keys) for k in range(length)]
    for inp in seq:
        r = g(None, inp)
        E.check('grade-is-maximum', r['grade_decimal'] == want[inp][0])
        E.check('message-depends-on-this-call-only', r['msg'] == want[inp][1])
    lg = ListGrader(answers=[({'expect': 'cat', 'msg': 'yes'}, {'expect': 'dog', 'grade_decimal': 0, 'msg': 'm'})] * length, subgraders=g, ordered=True)
    r = lg(None, list(seq))
    for inp, ent in zip(seq, r['input_list']):
        w = {'cat': (1, 'yes'), 'dog': (0, 'm')}.get(inp, (0, 'a much longer generic message'))
        E.check('message-depends-on-this-call-only', (ent['grade_decimal'], ent['msg']) == w)
    return seq


def h_matrix_messages(E, length):
    """MatrixGraders with suppressed shape messages, called one after the other: what is shown depends on this call only (wrong_msg exactly when the best
    grade is 0 and no specific message applies; a matched zero-credit alternative keeps its own message; a grader without wrong_msg shows none)"""
    from mitxgraders import MatrixGrader
    mk = lambda **kw: MatrixGrader(max_array_dim=1, suppress_matrix_messages=True, **kw)   # noqa
    graders = {'M1': mk(answers='[1,2]', wrong_msg='WRONG'),
               'M2': mk(answers=({'expect': '[1,2]'}, {'expect': '[1,2,3]', 'grade_decimal': 0, 'msg': 'm'})),
               'M3': mk(answers=({'expect': '[1,2]'}, {'expect': '[1,2,3]', 'grade_decimal': 0, 'msg': 'm'}), wrong_msg='W3')}
    want = {('M1', '[1,2]'): (1, ''), ('M1', '[1,2,3]'): (0, 'WRONG'), ('M1', '5'): (0, 'WRONG'), ('M1', '[3,4]'): (0, 'WRONG'),
            ('M2', '[1,2]'): (1, ''), ('M2', '[1,2,3]'): (0, 'm'), ('M2', '5'): (0, ''), ('M2', '[3,4]'): (0, ''),
            ('M3', '[1,2]'): (1, ''), ('M3', '[1,2,3]'): (0, 'm'), ('M3', '5'): (0, 'W3'), ('M3', '[3,4]'): (0, 'W3')}
    keys = sorted(want)
    out = []
    for step in range(length):
        gname, inp = E.choice('call%d' % step, keys)
        r = graders[gname](None, inp)
        grade, msg = want[(gname, inp)]
        E.check('grade-is-maximum', near_eq(r['grade_decimal'], grade))
        E.check('message-depends-on-this-call-only', r['msg'] == msg)
        out.append(r['msg'])
    return out


def h_sub(E, ordered):
    """alternatives inside a list: each list item has two alternative answers"""
    from mitxgraders import SingleListGrader
    T = {(e, s): E.real('g_%s_%s' % (e, s), 0, 1, lo_open=True, hi_open=True) for e in ('a', 'b', 'c', 'd') for s in ('s0', 's1')}
    TG = make_table_grader(T)
    g = SingleListGrader(answers=[('a', 'b'), ('c', 'd')], subgrader=TG(), ordered=ordered)
    r = g(None, 's0,s1')

    def item(alts, s):
        return smax(T[(alts[0], s)], T[(alts[1], s)])
    tot = item('ab', 's0') + item('cd', 's1')
    if not ordered:
        tot = smax(tot, item('ab', 's1') + item('cd', 's0'))
    E.check('list-of-best-alternatives', near_eq(r['grade_decimal'], tot / 2))
    return str(r['ok'])


def harnesses(tier):
    hs = []

    def add(fn, base, params, bounds, **kw):
        hs.append(Harness(pname(base, **params), fn, tuple(params.values()), FUNCS, bounds, STUBS, **kw))
    import vchecks.c18 as c18
    names = sorted(c18.SEQ_GRADERS)
    for a in names:
        for b in names:
            hs.append(Harness(pname('string_messages', first=a, then=b), c18.h_refusal_sequence, ((a, b), 2), FUNCS, 'two StringGrader calls, strings of length <= 2: wrong_msg and refusal texts of one grader never show in another', STUBS))
    add(h_string_alt_sequences, 'string_alt_sequences', dict(length=3), 'all sequences of 3 calls over 5 inputs on one grader, then the same inputs as one list call', validate=False)
    add(h_matrix_messages, 'matrix_messages', dict(length=2), 'all sequences of 2 calls over 3 MatrixGraders x 4 inputs (shape mismatches suppressed)', validate=False)
    add(h_alts, 'alts', dict(k=1, wrong=True, reorder=False, full=True), 'credits in [0,1]')
    for w in (True, False):
        add(h_alts, 'alts', dict(k=2, wrong=w, reorder=True, full=True), 'credits in [0,1], both orders')
    add(h_alts, 'alts', dict(k=3, wrong=True, reorder=True, full=False), 'credits in (0,1), all 6 orders')
    add(h_alts, 'alts', dict(k=3, wrong=True, reorder=True, full=True), 'credits in [0,1], all 6 orders')
    add(h_alts, 'alts', dict(k=3, wrong=False, reorder=False, full=True), 'credits in [0,1]')
    for inp in ('cat', 'dog', 'eel'):
        add(h_string, 'string', dict(inp=inp), 'StringGrader, 3 alternatives, credits in [0,1]')
    for order in range(6):
        add(h_same_expect, 'same_expect', dict(order=order), '3 alternatives sharing an expect value, credits in [0,1]')
    add(h_formula_messages, 'formula_messages', dict(length=3), 'all sequences of 3 calls over 8 (grader, input) pairs', validate=False)
    for o in (True, False):
        add(h_sub, 'sublist', dict(ordered=o), 'SingleListGrader items with 2 alternatives each')
    if tier == 'thorough':
        add(h_alts, 'alts', dict(k=3, wrong=False, reorder=True, full=True), 'credits in [0,1], all 6 orders', max_paths=200000)
        add(h_alts, 'alts', dict(k=4, wrong=True, reorder=True, full=False), 'credits in (0,1), all 24 orders', max_paths=100000)
        add(h_alts, 'alts', dict(k=4, wrong=True, reorder=False, full=True), 'credits in [0,1]', max_paths=200000)
        add(h_alts, 'alts', dict(k=5, wrong=True, reorder=False, full=False), 'credits in (0,1)', max_paths=200000)
    return hs
