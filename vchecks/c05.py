"""C05 - ListGrader: best consistent assignment, reported per input box."""
import itertools

from symx import Harness, pname, sand, sor, simplies, siff, near_le, near_eq, snot, sif, Abort
from symx.stubs import make_table_grader, shadow, NpObjProxy, wellformed

PROPERTY = 'C05'
EXPLANATION = ('The real ListGrader (check, perform_check, find_optimal_order, Munkres, groupify/ungroupify, get_best_result) is run with an '
               'author-defined table-driven ItemGrader whose credit for every (answer, input) pair is a z3 real in [0,1]. On every '
               'execution path z3 decides: ordered => entry i is the subgrader result for (answer i, input i); unordered => the reported '
               'entries form a one-to-one assignment, each reported at the position of the input it grades, whose total credit is >= the '
               'total of EVERY assignment (all n! as one conjunction); several answer lists => total >= every list\'s optimum; '
               'partial_credit=False => all entries zero unless all are fully correct.'
               ' Several answer lists with partial_credit=False: credits in {0,1} as symbolic integers, entries all-or-nothing with respect to the BEST list.')
ASSUMPTIONS = ['item credits are arbitrary reals in [0,1] ("full") or in (0,1) ("interior"); item strings are concrete distinct tokens',
               'the subgrader is an author-defined ItemGrader subclass returning the table credit (documented extension point)']
BOUNDS = {'quick': 'assignment-solver inductive steps 1 and 6 (n<=3, arbitrary pre-state); 4 inputs with one symbolic palette row; n<=2 full credits, n=3 interior credits; 2 alternative answer lists n=2 interior; grouped/nested layouts of 4 inputs (2 groups x 2) interior',
          'thorough': 'n<=3 full, n=4 interior (path budget), 2 alternative lists n=2 full / n=3 interior, nested 2x2 full, grouping 3 groups'}
OUTSIDE = ['IEEE rounding of credit sums', 'n beyond the bounds', 'more than 2 alternative answer lists']
DEADLINE = {'quick': 600, 'thorough': 2400}
FUNCS = ['ListGrader.__call__/check/perform_check/get_ordered_input_list/get_best_result', 'listgrader.find_optimal_order',
         'ListGrader.groupify_list/ungroupify_list', 'munkres.Munkres.compute', 'ItemGrader.check', 'AbstractGrader.__call__']
STUBS = ['TableGrader (author-defined ItemGrader returning table credit)', 'listgrader.np.zeros -> object array (get_best_result only)']


def _table(E, exps, stus, interior):
    return {(e, s): E.real('g_%s_%s' % (e, s), 0, 1, lo_open=interior, hi_open=interior) for e in exps for s in stus}


def _tag(ent):
    p = ent['msg'].split('/')
    return (p[0], p[1]) if len(p) == 2 else (None, None)


def h_list(E, ordered, partial, n, interior):
    from mitxgraders import ListGrader
    exps = ['e%d' % i for i in range(n)]
    stus = ['s%d' % j for j in range(n)]
    T = _table(E, exps, stus, interior)
    TG = make_table_grader(T)
    g = ListGrader(answers=list(exps), subgraders=TG(), ordered=ordered, partial_credit=partial)
    r = g(None, list(stus))
    il = r['input_list']
    E.check('shape', set(r.keys()) == {'overall_message', 'input_list'} and len(il) == n and r['overall_message'] == '')
    tags = [_tag(ent) for ent in il]
    E.check('reported-at-input-position', all(tags[j][1] == stus[j] for j in range(n)))
    if ordered:
        E.check('ordered-positional', all(tags[j][0] == exps[j] for j in range(n)))
    else:
        E.check('one-to-one', sorted(t[0] for t in tags) == sorted(exps))
    if any(t not in T for t in tags):
        return 'bad-tags'
    credits = [T[t] for t in tags]
    for ent in il:
        s, c = wellformed(ent)
        E.check('wellformed', sand(s, c))
    if partial:
        E.check('entry-credit-is-subgrader-credit', sand(*[near_eq(il[j]['grade_decimal'], credits[j]) for j in range(n)]))
    else:
        perfect = sand(*[near_eq(c, 1) for c in credits])
        E.check('all-or-nothing', sand(*[sand(simplies(perfect, near_eq(il[j]['grade_decimal'], 1)),
                                                simplies(snot(perfect), sand(near_eq(il[j]['grade_decimal'], 0), il[j]['ok'] is False)))
                                           for j in range(n)]))
    if not ordered:
        tot = sum(credits)
        E.check('optimal-assignment', sand(*[near_le(sum(T[(exps[p[j]], stus[j])] for j in range(n)), tot)
                                             for p in itertools.permutations(range(n))]))
    return [list(t) for t in tags] + [str(ent['ok']) for ent in il]


def h_multi(E, ordered, n, interior):
    """two alternative answer lists"""
    from mitxgraders import ListGrader
    import mitxgraders.listgrader as L
    A = ['a%d' % i for i in range(n)]
    B = ['b%d' % i for i in range(n)]
    stus = ['s%d' % j for j in range(n)]
    T = _table(E, A + B, stus, interior)
    TG = make_table_grader(T)
    with shadow(L, np=NpObjProxy()):
        g = ListGrader(answers=(list(A), list(B)), subgraders=TG(), ordered=ordered)
        r = g(None, list(stus))
    il = r['input_list']
    tags = [_tag(ent) for ent in il]
    E.check('reported-at-input-position', len(il) == n and all(tags[j][1] == stus[j] for j in range(n)))
    fam = {t[0][0] for t in tags}
    E.check('single-answer-list', len(fam) == 1)
    if len(fam) != 1 or any(t not in T for t in tags):
        return 'bad'
    used = A if fam == {'a'} else B
    E.check('one-to-one', sorted(t[0] for t in tags) == sorted(used) if not ordered else [t[0] for t in tags] == used)
    tot = sum(T[t] for t in tags)
    E.check('entry-credit-is-subgrader-credit', sand(*[near_eq(il[j]['grade_decimal'], T[tags[j]]) for j in range(n)]))
    perms = [tuple(range(n))] if ordered else list(itertools.permutations(range(n)))
    E.check('best-list-and-assignment', sand(*[near_le(sum(T[(X[p[j]], stus[j])] for j in range(n)), tot) for X in (A, B) for p in perms]))
    return [list(t) for t in tags]


def h_multi_all_or_nothing(E, ordered, k):
    """k alternative answer lists with partial_credit=False: entries are those of a best list/assignment when THAT one is perfect, all zero otherwise.
    Credits are symbolic integers in {0, 1} (every pattern of right and wrong items)."""
    from mitxgraders import ListGrader
    import mitxgraders.listgrader as L
    n = 2
    fams = 'abc'[:k]
    lists = [['%s%d' % (f, i) for i in range(n)] for f in fams]
    stus = ['s%d' % j for j in range(n)]
    T = {(e, s_): E.int('g_%s_%s' % (e, s_), 0, 1) for lst in lists for e in lst for s_ in stus}
    TG = make_table_grader(T)
    with shadow(L, np=NpObjProxy()):
        g = ListGrader(answers=tuple(list(x) for x in lists), subgraders=TG(), ordered=ordered, partial_credit=False)
        r = g(None, list(stus))
    il = r['input_list']
    perms = [tuple(range(n))] if ordered else list(itertools.permutations(range(n)))
    totals = [sum(T[(X[p[j]], stus[j])] for j in range(n)) for X in lists for p in perms]
    perfect_exists = sor(*[t == n for t in totals])
    all_one = sand(*[sand(ent['grade_decimal'] == 1, ent['ok'] is True) for ent in il])
    all_zero = sand(*[sand(ent['grade_decimal'] == 0, ent['ok'] is False) for ent in il])
    E.check('all-or-nothing-over-alternative-lists', sand(len(il) == n, sor(sand(perfect_exists, all_one), sand(snot(perfect_exists), all_zero))))
    return [str(ent['ok']) for ent in il]


def h_multi3(E, tie_pattern):
    """three alternative answer lists, ordered, 2 inputs: the reported list has maximal total also when several lists tie"""
    from mitxgraders import ListGrader
    import mitxgraders.listgrader as L
    lists = [['a0', 'a1'], ['b0', 'b1'], ['c0', 'c1']]
    stus = ['s0', 's1']
    flat = [x for l in lists for x in l]
    T = _table(E, flat, stus, True)
    if tie_pattern == 'bc-identical':
        # lists b and c earn the same credits box by box (e.g. the same list given twice)
        T[('c0', 's0')] = T[('b0', 's0')]
        T[('c1', 's1')] = T[('b1', 's1')]
    TG = make_table_grader(T)
    with shadow(L, np=NpObjProxy()):
        g = ListGrader(answers=tuple(list(l) for l in lists), subgraders=TG(), ordered=True)
        r = g(None, list(stus))
    il = r['input_list']
    tags = [_tag(ent) for ent in il]
    E.check('reported-at-input-position', len(il) == 2 and all(tags[j][1] == stus[j] for j in range(2)))
    fam = {t[0][0] for t in tags}
    E.check('single-answer-list', len(fam) == 1)
    if len(fam) != 1 or any(t not in T for t in tags):
        return 'bad'
    tot = sum(T[t] for t in tags)
    E.check('best-list-and-assignment', sand(*[near_le(T[(X[0], 's0')] + T[(X[1], 's1')], tot) for X in lists]))
    return [list(t) for t in tags]


def h_nested(E, outer_ordered, inner_ordered, interior, layout):
    """grouping: 4 inputs in two groups of two, graded by a nested ListGrader"""
    from mitxgraders import ListGrader
    grouping = {'1122': [1, 1, 2, 2], '1212': [1, 2, 1, 2], '2211': [2, 2, 1, 1], '1221': [1, 2, 2, 1], '2121': [2, 1, 2, 1]}[layout]
    stus = ['s%d' % j for j in range(4)]
    ans = [['e00', 'e01'], ['e10', 'e11']]
    flat = [x for grp in ans for x in grp]
    T = _table(E, flat, stus, interior)
    TG = make_table_grader(T)
    g = ListGrader(answers=[list(a) for a in ans],
                   subgraders=ListGrader(subgraders=TG(), ordered=inner_ordered),
                   ordered=outer_ordered, grouping=grouping)
    r = g(None, list(stus))
    il = r['input_list']
    tags = [_tag(ent) for ent in il]
    E.check('reported-at-input-position', len(il) == 4 and all(tags[j][1] == stus[j] for j in range(4)))
    if any(t not in T for t in tags):
        return 'bad'
    groups = [[j for j in range(4) if grouping[j] == k] for k in (1, 2)]
    # which answer group graded which input group
    owner = []
    for grp in groups:
        o = {tags[j][0][:2] for j in grp}
        owner.append(o)
    E.check('groups-graded-by-one-answer-group', all(len(o) == 1 for o in owner) and sorted(next(iter(o)) for o in owner) == ['e0', 'e1'])
    E.check('one-to-one', sorted(t[0] for t in tags) == sorted(flat))
    if outer_ordered:
        E.check('outer-ordered', [next(iter(o)) for o in owner] == ['e0', 'e1'])
    if inner_ordered:
        E.check('inner-ordered', all([tags[j][0] for j in grp] == sorted(tags[j][0] for j in grp) for grp in groups))
    E.check('entry-credit-is-subgrader-credit', sand(*[near_eq(il[j]['grade_decimal'], T[tags[j]]) for j in range(4)]))
    tot = sum(T[t] for t in tags)
    alts = []
    for op in ([(0, 1)] if outer_ordered else [(0, 1), (1, 0)]):
        inner_perms = [(0, 1)] if inner_ordered else [(0, 1), (1, 0)]
        for ip0 in inner_perms:
            for ip1 in inner_perms:
                s = 0
                for gi, ip in ((0, ip0), (1, ip1)):
                    a = ans[op[gi]]
                    for k in range(2):
                        s = s + T[(a[ip[k]], stus[groups[gi][k]])]
                alts.append(s)
    E.check('optimal-nested-assignment', sand(*[near_le(a, tot) for a in alts]))
    return [list(t) for t in tags]


def h_groups_slg(E, interior):
    """ordered list of two different subgraders with grouping: group 1 = two boxes (nested unordered ListGrader), group 2 = one box"""
    from mitxgraders import ListGrader
    stus = ['s0', 's1', 's2']
    T = _table(E, ['e0', 'e1', 'f'], stus, interior)
    TG = make_table_grader(T)
    g = ListGrader(answers=[['e0', 'e1'], 'f'], subgraders=[ListGrader(subgraders=TG(), ordered=False), TG()],
                   ordered=True, grouping=[1, 2, 1])
    r = g(None, list(stus))
    il = r['input_list']
    tags = [_tag(ent) for ent in il]
    E.check('reported-at-input-position', len(il) == 3 and all(tags[j][1] == stus[j] for j in range(3)))
    E.check('single-box-group', tags[1][0] == 'f')
    E.check('one-to-one', sorted([tags[0][0], tags[2][0]]) == ['e0', 'e1'])
    if any(t not in T for t in tags):
        return 'bad'
    E.check('entry-credit-is-subgrader-credit', sand(*[near_eq(il[j]['grade_decimal'], T[tags[j]]) for j in range(3)]))
    tot = T[tags[0]] + T[tags[2]]
    E.check('optimal-inner', sand(near_le(T[('e0', 's0')] + T[('e1', 's2')], tot), near_le(T[('e1', 's0')] + T[('e0', 's2')], tot)))
    return [list(t) for t in tags]


def h_singleton_groups(E, n):
    """ordered list with one subgrader per answer and a grouping that puts exactly one box in each group, in any order: box j is graded by subgrader
    and answer number grouping[j]"""
    from mitxgraders import ListGrader
    perms = list(itertools.permutations(range(1, n + 1)))
    grouping = list(E.choice('grouping', perms))
    exps = ['e%d' % i for i in range(n)]
    stus = ['s%d' % j for j in range(n)]
    T = _table(E, exps, stus, True)
    TG = make_table_grader(T)
    g = ListGrader(answers=list(exps), subgraders=[TG() for _ in range(n)], ordered=True, grouping=grouping)
    r = g(None, list(stus))
    il = r['input_list']
    tags = [_tag(ent) for ent in il]
    E.check('reported-at-input-position', len(il) == n and all(tags[j][1] == stus[j] for j in range(n)))
    E.check('ordered-positional', [t[0] for t in tags] == [exps[grouping[j] - 1] for j in range(n)])
    if all(t in T for t in tags):
        E.check('entry-credit-is-subgrader-credit', sand(*[near_eq(il[j]['grade_decimal'], T[tags[j]]) for j in range(n)]))
    return [list(t) for t in tags]


def h_groupify(E, n, k):
    """every assignment of n boxes to k groups (group labels as symbolic integers): groupify_list hands group g exactly the boxes labelled g, in box
    order, and ungroupify_list puts per-group results back at the boxes they came from"""
    from mitxgraders import ListGrader, StringGrader
    from mitxgraders.exceptions import ConfigError
    labels = [E.fork_int('group_of_box_%d' % i, 1, k) for i in range(n)]
    if set(labels) != set(range(1, k + 1)):
        raise Abort()          # labels must be 1..k without gaps: other lists are refused at construction (C20)
    sub = [ListGrader(subgraders=StringGrader(), ordered=True) if labels.count(g_) > 1 else StringGrader() for g_ in range(1, k + 1)]
    answers = [['a'] * labels.count(g_) if labels.count(g_) > 1 else 'a' for g_ in range(1, k + 1)]
    g = ListGrader(answers=answers, subgraders=sub, ordered=True, grouping=labels)
    boxes = ['box%d' % i for i in range(n)]
    grouped = ListGrader.groupify_list(g.grouping, list(boxes))
    want = [[boxes[i] for i in range(n) if labels[i] == g_] for g_ in range(1, k + 1)]
    norm_ = [x if isinstance(x, list) else [x] for x in grouped]
    E.check('groups-hold-exactly-their-boxes-in-box-order', norm_ == want)
    back = ListGrader.ungroupify_list(g.grouping, [[('r', b) for b in grp] if len(grp) > 1 else ('r', grp[0]) for grp in want])
    E.check('results-return-to-their-boxes', [b[1] for b in back] == boxes)
    return 'ok'


def h_palette4(E, ordered_rows):
    """4 inputs, credits from the palette {0, 1/2, 1} (symbolic integers /2): the smallest size at which a slip in the assignment solver's
    step 6 shows; only the FIRST `ordered_rows` rows are symbolic to keep the path count bounded, the rest are a fixed generic pattern"""
    from mitxgraders import ListGrader
    n = 4
    exps = ['e%d' % i for i in range(n)]
    stus = ['s%d' % j for j in range(n)]
    fixed = [[1, 0, 0.5, 0], [1, 0.5, 0, 0], [0.5, 0, 0.5, 0.5], [1, 0, 0, 0]]
    T = {}
    for i in range(n):
        for j in range(n):
            if j < ordered_rows:
                k = E.int('k_%d_%d' % (i, j), 0, 2)
                T[(exps[i], stus[j])] = k / 2
            else:
                T[(exps[i], stus[j])] = fixed[j][i]
    TG = make_table_grader(T)
    g = ListGrader(answers=list(exps), subgraders=TG(), ordered=False)
    r = g(None, list(stus))
    il = r['input_list']
    tags = [_tag(ent) for ent in il]
    E.check('reported-at-input-position', all(tags[j][1] == stus[j] for j in range(n)))
    E.check('one-to-one', sorted(t[0] for t in tags) == sorted(exps))
    if any(t not in T for t in tags):
        return 'bad'
    tot = sum(T[t] for t in tags)
    E.check('optimal-assignment', sand(*[near_le(sum(T[(exps[p[j]], stus[j])] for j in range(n)), tot) for p in itertools.permutations(range(n))]))
    return [list(t) for t in tags]


def harnesses(tier):
    hs = []

    def add(fn, base, params, bounds, **kw):
        hs.append(Harness(pname(base, **params), fn, tuple(params.values()), FUNCS, bounds, STUBS, **kw))
    for ordered in (True, False):
        for partial in (True, False):
            add(h_list, 'list', dict(ordered=ordered, partial=partial, n=2, interior=False), 'n=2, credits in [0,1]')
            add(h_list, 'list', dict(ordered=ordered, partial=partial, n=3, interior=True), 'n=3, credits in (0,1)')
    add(h_list, 'list', dict(ordered=True, partial=True, n=3, interior=False), 'n=3 ordered, credits in [0,1]')
    for ordered in (True, False):
        add(h_multi, 'multi', dict(ordered=ordered, n=2, interior=True), '2 answer lists, n=2, credits in (0,1)')
    for ordered in (True, False):
        for k in (2, 3):
            add(h_multi_all_or_nothing, 'multi_all_or_nothing', dict(ordered=ordered, k=k), '2-3 answer lists, n=2, partial_credit=False, credits in {0,1}', max_paths=None if tier == 'thorough' else 3000)
    for tp in ('free', 'bc-identical'):
        add(h_multi3, 'multi3', dict(ties=tp), '3 answer lists, 2 inputs, credits in (0,1)')
    for layout in ('1122', '1212'):
        add(h_nested, 'nested', dict(outer=False, inner=True, interior=True, layout=layout), '2 groups x 2 inputs, credits in (0,1)')
    for n, k in ((7, 2), (8, 2), (6, 3)):
        add(h_groupify, 'groupify', dict(n=n, k=k), 'every labelling of the boxes', validate=False)
    for n in (2, 3):
        add(h_singleton_groups, 'singleton_groups', dict(n=n), 'every permutation as a grouping of one box per group, credits in (0,1)')
    for layout in ('2211', '2121', '1221'):
        add(h_nested, 'nested', dict(outer=True, inner=True, interior=True, layout=layout), '2 groups x 2 inputs, group numbers not in page order, credits in (0,1)')
    add(h_nested, 'nested', dict(outer=True, inner=False, interior=True, layout='1221'), '2 groups x 2 inputs, credits in (0,1)')
    add(h_groups_slg, 'groups_mixed', dict(interior=True), 'grouping [1,2,1], credits in (0,1)')
    from vchecks.c06 import h_step6, h_step1
    for nn in (2, 3):
        hs.append(Harness(pname('solver_step6', n=nn), h_step6, (nn,), FUNCS, 'assignment solver step 6 from an arbitrary pre-state (dual transformation), n=%d' % nn, STUBS))
        hs.append(Harness(pname('solver_step1', n=nn), h_step1, (nn,), FUNCS, 'assignment solver step 1 from an arbitrary matrix, n=%d' % nn, STUBS))
    add(h_palette4, 'palette4', dict(symbolic_inputs=1), '4 inputs; one input\'s credits symbolic over {0,1/2,1}, the rest fixed')
    if tier == 'thorough':
        add(h_palette4, 'palette4', dict(symbolic_inputs=2), '4 inputs; two inputs\' credits symbolic over {0,1/2,1}', max_paths=200000)
        for partial in (True, False):
            add(h_list, 'list', dict(ordered=False, partial=partial, n=3, interior=False), 'n=3, credits in [0,1]', max_paths=150000)
        add(h_list, 'list', dict(ordered=False, partial=True, n=4, interior=True), 'n=4, credits in (0,1)', max_paths=150000)
        add(h_list, 'list', dict(ordered=True, partial=False, n=3, interior=False), 'n=3 ordered')
        for ordered in (True, False):
            add(h_multi, 'multi', dict(ordered=ordered, n=2, interior=False), '2 answer lists, n=2, credits in [0,1]', max_paths=100000)
            add(h_multi, 'multi', dict(ordered=ordered, n=3, interior=True), '2 answer lists, n=3, credits in (0,1)', max_paths=100000)
        for layout in ('1122', '1212'):
            add(h_nested, 'nested', dict(outer=False, inner=False, interior=True, layout=layout), '2 groups x 2 inputs (path budget)', max_paths=120000)
        add(h_nested, 'nested', dict(outer=False, inner=True, interior=True, layout='2211'), '2 groups x 2 inputs, inner ordered')
        add(h_nested, 'nested', dict(outer=True, inner=False, interior=False, layout='1122'), '2 groups x 2 inputs, credits in [0,1]', max_paths=150000)
        add(h_groups_slg, 'groups_mixed', dict(interior=False), 'grouping [1,2,1], credits in [0,1]')
    return hs
