"""C01 - every grader call returns a well-formed, self-consistent edX result; debug output only with debug=True."""
from symx import Harness, pname, sand, sor, simplies, siff, near_le, near_eq, snot, sif, smax, POISON
from symx.stubs import make_table_grader, make_sym_sampler, wellformed, shadow, sym_float, sym_Decimal, NpObjProxy

PROPERTY = 'C01'
EXPLANATION = ('Real grader calls (String, Formula, Numerical, Matrix, Sum, Interval, SingleList, List incl. nested/grouped, with and without '
               'attempt-based credit) run with the quantities that determine the grade as z3 reals: item credits (table-driven subgrader), '
               'answer-level credits, the attempt-credit value, sampled variable values. On every path z3 decides that each returned entry has '
               'exactly the keys ok/grade_decimal/msg (plus overall_message and an input_list of one entry per input, in input order), that '
               '0 <= grade <= 1, msg is a str, ok is True iff grade = 1, False iff grade = 0 and "partial" otherwise; with debug off no message '
               'contains the debug log, the library version, the student response header or a sampled value (sampled values render as a '
               'poison token, so a leak is structural); with debug on the log is present.'
               " Box counts: grouped / nested / flat ListGraders with 1-6 boxes either raise a library error or return one entry per box. MatrixGrader entry credit with the answer's own credit symbolic (0 included).")
ASSUMPTIONS = ['author-pinned ok values are outside the claim (the property exempts them)', 'credits/samples arbitrary reals in their declared ranges']
BOUNDS = {'quick': 'lists of 2 (full credits) and 3 (interior) entries, 2 answer alternatives with symbolic partial credit, samples <= 2, all standardize_cfn_return input forms',
          'thorough': 'lists of 3 full-credit entries, grouped/nested lists, samples 3'}
OUTSIDE = ['IntegralGrader (scipy absent)', 'author-pinned ok', 'IEEE rounding of products', 'arbitrary unicode garbage as formula input (parse totality is C02/C03)']
DEADLINE = {'quick': 600, 'thorough': 1500}
FUNCS = ['AbstractGrader.__call__', 'AbstractGrader.grade_decimal_to_ok', 'AbstractGrader.apply_attempt_based_credit', 'AbstractGrader.format_messages',
         'ItemGrader.standardize_cfn_return', 'ItemGrader.validate_single_answer', 'ItemGrader.check', 'listgrader.consolidate_grades',
         'listgrader.consolidate_single_return', 'SingleListGrader.process_grade_list', 'ListGrader.check/perform_check/ungroupify_list',
         'StringGrader.check_response', 'MathMixin.check_math_response', 'MatrixGrader.check_response', 'IntervalGrader.check_response/grade_bracket',
         'SumGrader.check_response/raw_check']
STUBS = ['TableGrader', 'SymSampler', 'baseclasses.float/Decimal shadows', 'expressions.np proxy (object arrays)']
LEAKS = ['MITx Grading Library Version', 'Student Response', 'Running on edX', 'Expect value inferred', POISON]


def _entry_ok(E, ent, tag='wellformed'):
    s_ok, c_ok = wellformed(ent)
    E.check(tag, sand(s_ok, c_ok))


def _no_leak(E, texts):
    E.check('no-debug-output-when-debug-off', all(l not in t for t in texts for l in LEAKS))


def _result_texts(r):
    if 'input_list' in r:
        return [r.get('overall_message', '')] + [e['msg'] for e in r['input_list']]
    return [r['msg']]


def h_cfn(E, form):
    from mitxgraders.baseclasses import ItemGrader
    g = E.real('g', 0, 1)
    val = {'True': True, 'False': False, 'partial': 'partial', 'Partial': 'Partial', 'dict': {'grade_decimal': g}, 'dictmsg': {'grade_decimal': g, 'msg': 'hi'},
           'one': 1, 'zero': 0, 'dict-ok-partial': {'ok': 'partial', 'grade_decimal': g, 'msg': 'hi'}, 'dict-ok-true': {'ok': True, 'grade_decimal': g},
           'dict-ok-false': {'ok': False, 'grade_decimal': g}}[form]
    r = ItemGrader.standardize_cfn_return(val)
    _entry_ok(E, r)
    if form.startswith('dict'):
        E.check('grade-preserved', near_eq(r['grade_decimal'], g) and r['msg'] == ('hi' if form in ('dictmsg', 'dict-ok-partial') else ''))
    return str(r['ok'])


def h_single_attempt(E, msg_flag):
    import mitxgraders.baseclasses as B
    T = {('e', 's'): E.real('g', 0, 1)}
    TG = make_table_grader(T, tag=False)
    c = E.real('credit', 0, 1)
    g = TG(answers='e', attempt_based_credit=lambda n: c, attempt_based_credit_msg=msg_flag, wrong_msg='nope')
    with shadow(B, float=sym_float, Decimal=sym_Decimal):
        r = g(None, 's', attempt=E.int('attempt', -1, 4))
    E.check('bounds-only', sand(r['grade_decimal'] >= 0, r['grade_decimal'] <= 1))
    # grade = g * round(c,4): decide ok-consistency through the linear facts the code establishes
    s_ok, c_ok = wellformed(r)
    E.check('wellformed', sand(s_ok, c_ok))
    E.check('no-debug-output-when-debug-off', all(l not in r['msg'] for l in LEAKS[:4] + ['<pre>']))
    return str(r['ok'])


def h_list(E, kind, attempt, debug=False):
    import mitxgraders.baseclasses as B
    from mitxgraders import ListGrader, SingleListGrader
    n = 2
    exps = ['e%d' % i for i in range(n)]
    stus = ['s%d' % i for i in range(n)]
    T = {(e, s): E.real('g_%s_%s' % (e, s), 0, 1) for e in exps for s in stus}
    TG = make_table_grader(T)
    kw = {}
    if attempt:
        c = E.choice('credit', [0.5, 0, 1])
        kw = dict(attempt_based_credit=lambda k: c)
    if debug:
        kw['debug'] = True
    call_kw = dict(attempt=2) if attempt else {}
    with shadow(B, float=sym_float):
        if kind in ('slg', 'slg-surplus', 'slg-short'):
            a = E.real('a', 0, 1)
            g = SingleListGrader(answers={'expect': list(exps), 'grade_decimal': a, 'msg': 'all'}, subgrader=TG(), **kw)
            sub = {'slg': stus, 'slg-surplus': stus + ['s0'], 'slg-short': stus[:1]}[kind]      # surplus: 3 submitted for 2 expected
            r = g(None, ','.join(sub), **call_kw)
            _entry_ok(E, r)
        else:
            ordered = kind == 'list-ordered'
            if kind == 'list-of-slg':
                g = ListGrader(answers=[['e0', 'e1'], ['e0', 'e1']], subgraders=SingleListGrader(subgrader=TG()), ordered=True, **kw)
                r = g(None, ['s0,s1', 's1,s0'], **call_kw)
            else:
                g = ListGrader(answers=list(exps), subgraders=TG(), ordered=ordered, **kw)
                r = g(None, list(stus), **call_kw)
            E.check('list-structure', set(r.keys()) == {'overall_message', 'input_list'} and len(r['input_list']) == 2
                    and isinstance(r['overall_message'], str))
            for ent in r['input_list']:
                _entry_ok(E, ent)
            if kind != 'list-of-slg':
                E.check('entries-in-input-order', [ent['msg'].split('/')[-1] for ent in r['input_list']] == stus)
    if debug:
        E.check('debug-log-present-when-debug-on', 'MITx Grading Library Version' in (r.get('overall_message', '') + r.get('msg', '')))
    else:
        _no_leak(E, _result_texts(r))
    return 'ok'


LIST_LENGTH_KINDS = ('flat', 'flat-ordered', 'grouped', 'grouped-uneven', 'grouped-unordered', 'grouped-mixed')


def h_pinned_ok(E, cls, pinned):
    """an explicit `ok` in an answer is honoured only on an answer worth full credit (validate_single_answer: "if the ok value is 'computed' or the
    grade decimal is not 1, compute ok"); for every other credit the pin has no effect and ok follows the grade - in the stored answer and in the result"""
    import mitxgraders as m
    g_ = E.real('credit', 0, 1)
    ans = {'expect': 'cat' if cls == 'StringGrader' else '2*x', 'grade_decimal': g_, 'msg': 'hint'}
    if pinned != 'absent':
        ans['ok'] = pinned
    if cls == 'StringGrader':
        g = m.StringGrader(answers=ans)
        r = g(None, 'cat')
    else:
        SX = make_sym_sampler(E, 'x', 1, 3)
        g = m.FormulaGrader(answers=ans, variables=['x'], sample_from={'x': SX()}, samples=1)
        r = g(None, 'x+x')
    stored = g.config['answers'][0]['ok']
    pin_effective = sand(g_ == 1, pinned not in ('absent', 'computed'))
    want = sif_obj(pin_effective, pinned, None)
    s_ok, c_ok = wellformed(r)
    E.check('result-shape', s_ok)
    if bool(pin_effective):
        E.check('pin-honoured-only-at-full-credit', stored == pinned and r['ok'] == pinned)
    else:
        E.check('pin-without-effect-ok-follows-grade', sand(c_ok, stored == r['ok']))
    return str(r['ok'])


def sif_obj(c, a, b):
    return a if bool(c) else b


def h_mixed_subgraders(E, order):
    """ordered ListGrader whose subgraders are of different kinds (a SingleListGrader carries internal bookkeeping keys in its results): every returned
    entry has exactly ok / grade_decimal / msg, whatever the order of the subgraders"""
    import mitxgraders.baseclasses as B
    from mitxgraders import ListGrader, SingleListGrader, StringGrader
    T = {(e, s): E.real('g_%s_%s' % (e, s), 0, 1) for e in ('e0', 'e1', 'e2') for s in ('s0', 's1', 's2')}
    TG = make_table_grader(T)
    kinds = {'slg-then-item': [SingleListGrader(subgrader=TG()), TG()], 'item-then-slg': [TG(), SingleListGrader(subgrader=TG())],
             'slg-item-slg': [SingleListGrader(subgrader=TG()), TG(), SingleListGrader(subgrader=TG())], 'item-slg-item': [TG(), SingleListGrader(subgrader=TG()), TG()]}[order]
    answers = [['e0', 'e1'] if isinstance(k, SingleListGrader) else 'e2' for k in kinds]
    inputs = ['s0, s1' if isinstance(k, SingleListGrader) else 's2' for k in kinds]
    with shadow(B, float=sym_float):
        r = ListGrader(answers=answers, subgraders=kinds, ordered=True)(None, inputs)
    E.check('list-structure', set(r.keys()) == {'overall_message', 'input_list'} and len(r['input_list']) == len(kinds))
    for ent in r['input_list']:
        _entry_ok(E, ent)
    _no_leak(E, _result_texts(r))
    return 'ok'


def h_list_length(E, kind, n_stu):
    """the number of submitted boxes is arbitrary: a ListGrader call either raises a library error or returns one well-formed entry per box, in box order"""
    import mitxgraders.baseclasses as B
    from mitxgraders import ListGrader
    from mitxgraders.exceptions import MITxError
    stus = ['s%d' % i for i in range(n_stu)]
    exps = ['e0', 'e1', 'e2', 'e3']
    T = {(e, s): E.real('g_%s_%s' % (e, s), 0, 1) for e in exps for s in stus}
    TG = make_table_grader(T)
    with shadow(B, float=sym_float):
        if kind == 'flat':
            g = ListGrader(answers=exps[:3], subgraders=TG(), ordered=False)
        elif kind == 'flat-ordered':
            g = ListGrader(answers=exps[:3], subgraders=[TG(), TG(), TG()], ordered=True)
        elif kind == 'grouped':
            g = ListGrader(answers=[['e0', 'e1'], ['e2', 'e3']], subgraders=ListGrader(subgraders=TG()), ordered=True, grouping=[1, 1, 2, 2])
        elif kind == 'grouped-uneven':
            # the grouping hands three boxes to a sub-list with two answers and one box to the other (counts add up at the top level only)
            g = ListGrader(answers=[['e0', 'e1'], ['e2', 'e3']], subgraders=ListGrader(subgraders=TG()), ordered=True, grouping=[1, 1, 1, 2])
        elif kind == 'grouped-unordered':
            g = ListGrader(answers=[['e0', 'e1'], ['e2', 'e3']], subgraders=ListGrader(subgraders=TG()), ordered=False, grouping=[1, 2, 1, 2])
        else:
            g = ListGrader(answers=[['e0', 'e1'], 'e2'], subgraders=[ListGrader(subgraders=TG()), TG()], ordered=True, grouping=[1, 2, 1])
        try:
            r = g(None, list(stus))
        except MITxError as e:
            E.check('wrong-number-of-boxes-is-a-library-error', True)
            return type(e).__name__
    E.check('list-structure', set(r.keys()) == {'overall_message', 'input_list'} and len(r['input_list']) == n_stu and isinstance(r['overall_message'], str))
    for ent in r['input_list']:
        _entry_ok(E, ent)
    E.check('entries-in-input-order', [ent['msg'].split('/')[-1] for ent in r['input_list']] == stus)
    _no_leak(E, _result_texts(r))
    return 'ok'


def _formula_grader(E, cls, debug, samples=2):
    from mitxgraders import FormulaGrader, NumericalGrader
    a = E.real('a', 0, 1)
    if cls == 'formula':
        SX = make_sym_sampler(E, 'x', 1, 3)
        return FormulaGrader(answers=({'expect': '2*x', 'msg': 'right'}, {'expect': 'x', 'grade_decimal': a, 'msg': 'half'}), variables=['x'],
                             sample_from={'x': SX()}, samples=samples, debug=debug, wrong_msg='try again')
    c = E.real('c', 1, 3)
    return NumericalGrader(answers=({'expect': '2*c', 'msg': 'right'}, {'expect': 'c', 'grade_decimal': a, 'msg': 'half'}), user_constants={'c': c},
                           debug=debug, wrong_msg='try again')


def h_formula(E, cls, inp, debug):
    g = _formula_grader(E, cls, debug)
    var = 'x' if cls == 'formula' else 'c'
    s = {'right': '%s+%s' % (var, var), 'alt': var, 'wrong': '3*%s+1' % var}[inp]
    r = g(None, s)
    if not debug:
        _entry_ok(E, r)
        _no_leak(E, [r['msg']])
        E.check('message-of-matched-alternative', {'right': r['msg'] == 'right', 'wrong': r['msg'] == 'try again',
                                                  'alt': r['msg'] in ('half', 'try again')}[inp])
    else:
        s_ok, c_ok = wellformed(r)
        E.check('wellformed', sand(s_ok, c_ok))
        E.check('debug-log-present-when-debug-on', '<pre>' in r['msg'] and 'MITx Grading Library Version' in r['msg'])
    return str(r['ok'])


def h_formula_sometimes(E, samples):
    """a student formula that agrees with a partial-credit answer at SOME sample points only (|x| vs x on a range around 0): whatever the pattern of
    agreeing and disagreeing samples, the result is well-formed - full answer credit if every sample agrees, otherwise no credit"""
    from mitxgraders import FormulaGrader
    SX = make_sym_sampler(E, 'x', -2, 2)
    a = E.real('a', 0, 1)
    g = FormulaGrader(answers={'expect': 'abs(x)', 'grade_decimal': a, 'msg': 'm'}, variables=['x'], sample_from={'x': SX()}, samples=samples)
    r = g(None, 'x')
    _entry_ok(E, r)
    all_agree = sand(*[d >= 0 for d in SX.draws])
    E.check('credit-iff-every-sample-agrees', near_eq(r['grade_decimal'], sif(all_agree, a, 0)))
    _no_leak(E, [r['msg']])
    return str(r['ok'])


def h_matrix_entry(E, credit, inp):
    """entry-wise partial credit at every setting (0, 1, a fraction, proportional) with a partly correct submission"""
    import numpy as np
    from mitxgraders import MatrixGrader
    from mitxgraders.sampling import VariableSamplingSet
    from mitxgraders.helpers.calc.math_array import MathArray
    import voluptuous
    cnt = [0]

    class ArrSampler(VariableSamplingSet):
        schema_config = voluptuous.Schema({})

        def gen_sample(self):
            cnt[0] += 1
            a = np.empty((2,), dtype=object)
            for i in range(2):
                a[i] = E.real('v%d_%d' % (cnt[0], i), 1, 2)
            return MathArray(a.astype(float) if E.mode == 'conc' else a)
    a = E.real('a', 0, 1)       # the answer's own credit: any value, 0 included (a listed wrong answer with a hint)
    g = MatrixGrader(answers={'expect': '2*v', 'grade_decimal': a}, variables=['v'], sample_from={'v': ArrSampler()}, samples=1, max_array_dim=1,
                     entry_partial_credit=credit, tolerance=0.01)
    s = {'right': 'v+v', 'one-entry-wrong': 'v+v+[0,5]', 'all-wrong': 'v+v+[5,5]'}[inp]
    r = g(None, s)
    _entry_ok(E, r)
    want = {'right': 1, 'all-wrong': 0, 'one-entry-wrong': 0.5 if credit == 'proportional' else credit}[inp]
    E.check('entry-credit', near_eq(r['grade_decimal'], want * a))
    return str(r['ok'])


TINY_CREDITS = [(1e-200, 1e-200), (5e-324, 0.5), (1e-300, 'proportional'), (1e-320, 1e-10), (2.5e-162, 2e-162), (1.0, 5e-324), (1e-155, 1e-155)]


def h_tiny_credit(E, idx):
    """concrete companion (doubles, not reals): credits whose PRODUCT underflows to 0.0 - the entry is then simply wrong (ok False), and a product that
    survives as a subnormal is 'partial'"""
    from mitxgraders import MatrixGrader
    answer_credit, entry_credit = TINY_CREDITS[idx]
    g = MatrixGrader(answers={'expect': '[1,3]', 'grade_decimal': answer_credit}, entry_partial_credit=entry_credit, max_array_dim=1)
    for inp in ('[5,3]', '[1,3]', '[5,5]'):
        r = g(None, inp)
        s_ok, c_ok = wellformed(r)
        E.check('wellformed', bool(s_ok) and bool(c_ok))
    return 'ok'


def h_matrix(E, inp):
    import numpy as np
    from mitxgraders import MatrixGrader
    from mitxgraders.sampling import VariableSamplingSet
    from mitxgraders.helpers.calc.math_array import MathArray
    import mitxgraders.helpers.calc.expressions as X
    import voluptuous
    cnt = [0]

    class ArrSampler(VariableSamplingSet):
        schema_config = voluptuous.Schema({})

        def gen_sample(self):
            cnt[0] += 1
            a = np.empty((2,), dtype=object)
            for i in range(2):
                a[i] = E.real('v%d_%d' % (cnt[0], i), 1, 2)
            return MathArray(a.astype(float) if E.mode == 'conc' else a)
    a = E.real('a', 0, 1)
    with shadow(X, np=NpObjProxy()):
        g = MatrixGrader(answers={'expect': '2*v', 'grade_decimal': a}, variables=['v'], sample_from={'v': ArrSampler()}, samples=1, max_array_dim=1,
                         entry_partial_credit='proportional')
        s = {'right': 'v+v', 'wrong': 'v', 'scaled': '4*v/2'}[inp]
        r = g(None, s)
    _entry_ok(E, r)
    _no_leak(E, [r['msg']])
    return str(r['ok'])


def h_sum(E, inp):
    from mitxgraders import SumGrader
    SX = make_sym_sampler(E, 'x', 1, 2)
    a = 1
    g = SumGrader(answers={'lower': '1', 'upper': '3', 'summand': 'x*n', 'summation_variable': 'n'}, variables=['x'], sample_from={'x': SX()},
                  samples=1, input_positions={'lower': 1, 'upper': 2, 'summand': 3})
    s = {'right': ['1', '3', 'n*x'], 'shifted': ['0', '2', '(n+1)*x'], 'wrong': ['1', '3', 'x']}[inp]
    r = g(None, s)
    # SumGrader (like IntegralGrader) answers a multi-box problem with ONE result dictionary, the form edX applies to every box
    _entry_ok(E, r)
    E.check('sum-grade', near_eq(r['grade_decimal'], 0 if inp == 'wrong' else a))
    _no_leak(E, _result_texts(r))
    return str(r['ok'])


def h_string(E, inp, mode):
    from mitxgraders import StringGrader
    a = E.real('a', 0, 1)
    if mode == 'match':
        g = StringGrader(answers=({'expect': 'cat', 'msg': 'yes'}, {'expect': 'dog', 'grade_decimal': a, 'msg': 'kind of'}), wrong_msg='no')
    else:
        g = StringGrader(answers={'expect': '', 'grade_decimal': a}, accept_any=True, min_length=3, explain_minimums='msg')
    r = g(None, inp)
    _entry_ok(E, r)
    _no_leak(E, [r['msg']])
    return str(r['ok'])


def h_interval(E, inp):
    from mitxgraders import IntervalGrader
    b = E.real('b', 0, 1)
    lcred = E.real('l', 0, 1)
    g = IntervalGrader(answers=[({'expect': '[', 'grade_decimal': 1}, {'expect': '(', 'grade_decimal': b, 'msg': 'open?'}),
                                ({'expect': '1'}, {'expect': '0', 'grade_decimal': lcred}), '2', ')'])
    r = g(None, inp)
    s_ok, c_ok = wellformed(r)
    E.check('wellformed', sand(s_ok, c_ok))
    _no_leak(E, [r['msg']])
    return str(r['ok'])


def harnesses(tier):
    hs = []
    T = tier == 'thorough'

    def add(fn, base, params, bounds, **kw):
        hs.append(Harness(pname(base, **params), fn, tuple(params.values()), FUNCS, bounds, STUBS, **kw))
    for f in ('True', 'False', 'partial', 'Partial', 'dict', 'dictmsg', 'one', 'zero', 'dict-ok-partial', 'dict-ok-true', 'dict-ok-false'):
        add(h_cfn, 'cfn', dict(form=f), 'grade any real in [0,1]')
    for flag in (True, False):
        add(h_single_attempt, 'single_attempt', dict(msg=flag), 'grade, schedule value any reals in [0,1]; attempt in [-1,4]', expect_inconclusive=True)
    for kind in ('slg', 'slg-surplus', 'slg-short', 'list-ordered', 'list-unordered', 'list-of-slg'):
        for att in (False, True):
            add(h_list, 'list', dict(kind=kind, attempt=att), '2 entries, credits in [0,1]')
    for kind in ('slg', 'list-ordered', 'list-unordered', 'list-of-slg'):
        add(h_list, 'list', dict(kind=kind, attempt=True, debug=True), '2 entries, credits in [0,1], debug log on')
    for cls in ('StringGrader', 'FormulaGrader'):
        for pinned in ('absent', 'computed', True, False, 'partial'):
            add(h_pinned_ok, 'pinned_ok', dict(cls=cls, pinned=pinned), 'answer credit any real in [0,1]')
    for order in ('slg-then-item', 'item-then-slg', 'slg-item-slg', 'item-slg-item'):
        add(h_mixed_subgraders, 'mixed_subgraders', dict(order=order), 'credits in [0,1]', max_paths=None if T else 300)
    for kind in LIST_LENGTH_KINDS:
        for n_stu in range(1, 7):
            add(h_list_length, 'list_length', dict(kind=kind, n_boxes=n_stu), '1..6 submitted boxes against 3 or 4 expected; credits in [0,1]', max_paths=None if T else 60)
    for cls in ('formula', 'numerical'):
        for inp in ('right', 'alt', 'wrong'):
            for dbg in (False, True):
                add(h_formula, cls, dict(cls=cls, inp=inp, debug=dbg), 'symbolic samples, symbolic partial credit')
    for n in (2, 3):
        add(h_formula_sometimes, 'formula_sometimes', dict(samples=n), 'symbolic samples in [-2,2], symbolic answer credit')
    for credit in (0, 1, 0.5, 'proportional'):
        for inp in ('right', 'one-entry-wrong', 'all-wrong'):
            add(h_matrix_entry, 'matrix_entry', dict(credit=credit, inp=inp), 'symbolic 2-vector sample')
    for i in range(len(TINY_CREDITS)):
        add(h_tiny_credit, 'tiny_credit', dict(i=i), 'answer credit %r x entry credit %r' % TINY_CREDITS[i], validate=False)
    for inp in ('right', 'wrong', 'scaled'):
        add(h_matrix, 'matrix', dict(inp=inp), 'symbolic 2-vector samples')
    for inp in ('right', 'shifted', 'wrong'):
        add(h_sum, 'sum', dict(inp=inp), 'symbolic sample')
    for inp in ('cat', 'dog', 'eel', ' Cat', ''):
        add(h_string, 'string', dict(inp=inp, mode='match'), 'symbolic partial credit')
    for inp in ('', 'ab', 'abc', 'a b c d'):
        add(h_string, 'string', dict(inp=inp, mode='any'), 'symbolic credit')
    for inp in ('[1,2)', '(1,2)', '(0,2)', '[0, 2]', '[1,3)', '[ 1 , 2 )'):
        add(h_interval, 'interval', dict(inp=inp), 'symbolic bracket and limit credits')
    return hs
