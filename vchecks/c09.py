"""C09 - restrictions on student formulas cannot be bypassed to obtain credit."""
import itertools
import collections

from symx import Harness, pname, sand, sor, simplies, siff, snot, near_eq, is_sym
from symx.stubs import make_sym_sampler

PROPERTY = 'C09'
EXPLANATION = ('(1) get_permitted_functions / validate_only_permitted_functions_used / validate_required_functions_used run with the membership of every '
               'function name in whitelist, blacklist, required and used sets as forked symbolic booleans: they raise exactly when used is not within '
               'permitted (documented formula) or required is not within used. (2) End to end, with the sampled values as z3 reals so that the '
               'cheating formula WOULD earn credit at every sample: a generated catalogue of formulas = correct answer combined with a neutral term '
               'that uses the restricted construct (f(0)*0, +z-z, *z^0, inside arguments, array entries and exponents, primed / case variants) x '
               '{blacklist, whitelist, whitelist=[None], required_functions, forbidden_strings, instructor_vars, numbered variables, suffixes, sibling '
               'variables} x {Formula, Numerical, Matrix, Sum graders, ordered lists}, for full- and partial-credit answers: every path must raise a '
               'student-facing error and never return a positive grade, while the author\'s own answer using the same construct is graded. '
               '(3) forbidden strings with spaces inserted at every position.'
               ' Ordered lists of up to 12 boxes: no sibling_j name (multi-digit included) is usable by the student.')
ASSUMPTIONS = ['the structural part (where a name can hide) is a generated finite catalogue; the solver\'s share is the sample values and the set memberships']
BOUNDS = {'quick': 'universe of 3 default + 1 user function (all membership combinations); 60+ cheating formulas x 2 credit levels; spaces at every gap of two forbidden strings',
          'thorough': 'same (the catalogue is exhausted in the quick tier), samples=3'}
OUTSIDE = ['cheating constructions outside the catalogue', 'IntegralGrader']
DEADLINE = {'quick': 600, 'thorough': 900}
FUNCS = ['math_helpers.get_permitted_functions', 'validate_only_permitted_functions_used', 'validate_required_functions_used', 'validate_forbidden_strings_not_used',
         'MathMixin.check_math_response/post_eval_validation', 'FormulaGrader.gen_evaluations (instructor/sibling scrubbing)', 'MathExpression.check_scope',
         'SumGrader.gen_evaluations', 'ListGrader.get_ordered_input_list (siblings)']
STUBS = ['SymSampler']
D = ['sin', 'cos', 'tan']


def h_sets(E):
    from mitxgraders.helpers.math_helpers import get_permitted_functions, validate_only_permitted_functions_used, validate_required_functions_used
    from mitxgraders.exceptions import InvalidInput
    mode = E.choice('whitelist_mode', ['empty', 'none', 'subset'])
    wl = [] if mode == 'empty' else ([None] if mode == 'none' else [f for f in D if E.fork_bool('wl_' + f)])
    if mode == 'subset' and not wl:
        from symx import Abort
        raise Abort()
    bl = [f for f in D if E.fork_bool('bl_' + f)] if mode == 'empty' else []
    names = D + ['f', 'zz']
    used = {f for f in names if E.fork_bool('used_' + f)}
    required = [f for f in D[:2] + ['f'] if E.fork_bool('req_' + f)]
    user = {'f': abs}
    if E.fork_bool('user_function_overrides_sin'):
        user['sin'] = abs
    permitted = get_permitted_functions(D, wl, bl, user)
    # whitelist modes: user functions are always allowed; blacklist mode: a blacklisted name is refused even if the author overrides it
    want = (set(user) if mode == 'none' else (set(user) | set(wl) if mode == 'subset' else (set(user) | set(D)) - set(bl)))
    E.check('permitted-set-is-documented-formula', set(permitted) == want)
    try:
        validate_only_permitted_functions_used(used, permitted)
        e1 = False
    except InvalidInput:
        e1 = True
    E.check('raises-iff-used-not-within-permitted', e1 == (not used <= want))
    try:
        validate_required_functions_used(used, required)
        e2 = False
    except InvalidInput:
        e2 = True
    E.check('raises-iff-required-not-within-used', e2 == (not set(required) <= used))
    return [e1, e2]


# ------------------------------------------------------------------------------------------------ end-to-end catalogue
def neutral(fn_call_zero, fn_call_x):
    """cheating shapes around the correct answer 2*x using a restricted function call"""
    return ['2*x + %s*0' % fn_call_zero, '2*x + 0*%s' % fn_call_x, '2*x*%s^0' % fn_call_x, '2*x + %s - %s' % (fn_call_x, fn_call_x), '2*x + sin(0*%s)' % fn_call_x,
            '2*x^(1+0*%s)' % fn_call_x, '[2*x, %s]*[1, 0]' % fn_call_x]


CASES = []


def case(name, cfg, cheats, honest, author_answer='2*x'):
    CASES.append((name, cfg, cheats, honest, author_answer))


case('blacklist', dict(blacklist=['cos']), neutral('cos(0)', 'cos(x)'), ['x+x', '2*x + 0*sin(x)'], '2*x*cos(0) + 0*cos(x)')
case('whitelist', dict(whitelist=['sin']), neutral('cos(0)', 'exp(x)') + neutral('tan(0)', 'cosh(x)'), ['x+x', '2*x + sin(0)'], '2*x + 0*exp(x)')
case('whitelist-none', dict(whitelist=[None]), neutral('sin(0)', 'sin(x)') + neutral('abs(0)', 'abs(x)'), ['x+x'], '2*x*cos(0) + 0*sin(x)')
case('required', dict(required_functions=['sin']), ['2*x', 'x+x', '2*x + 0*cos(x)', '2*x + 0*Sin(x)' if False else '2*x*1'], ['2*x + 0*sin(x)', '2*x + sin(0)'], '2*x')
case('forbidden', dict(forbidden_strings=['2*x', 'x+x']), ['2*x', '2 * x', ' 2*  x ', 'x+x', 'x + x', '0+2*x', 'x+x+0', '(2*x)'], ['x*2', '3*x-x'], '2*x')
case('instructor', dict(variables=['x', 'c'], instructor_vars=['c']), ['2*x + c - c', '2*x*c^0', '2*x + 0*c', '2*x + sin(0*c)', '[2*x, c]*[1,0]', "2*x + 0*c'" if False else '2*x+c*0'],
     ['x+x'], '2*x + c - c')
case('undefined', dict(), ['2*x + zz - zz', '2*x + 0*X', "2*x + 0*x'", '2*x + 0*x_1', '2*x + 0*a_{1}', '2*x + 0*Pi', '2*x + 0*E', '2*x + 0*I', '2*x + 0*f(x)', '2*x + 0*SIN(x)',
                           '2*x + 0*sin'], ['x+x', '2*x + 0*pi', '2*x + 0*e'])
case('numbered', dict(numbered_vars=['a']), ['2*x + 0*a_{1.5}', '2*x + 0*a_{01}', '2*x + 0*b_{1}', '2*x + 0*a_{x}', '2*x + 0*A_{1}', "2*x + 0*a_{1}'", "2*x + a_{1} + a_{2}'' - a_{2}''", '2*x + 0*a_{3}^{2}', "2*x + 0*a_{3}^{2}'", '2*x + 0*a_{1}_{2}', '2*x + 0*aa_{1}', '2*x + 0*a_{1}1'], ['2*x + 0*a_{1}', '2*x + 0*a_{-12}'])
case('suffix', dict(metric_suffixes=False), ['2*x + 0k', '2*x*1M^0', '2000m*x' if False else '2*x + 0m', '2*x + 0*1q'], ['2*x + 0%', '200%*x'])
case('suffix-metric', dict(metric_suffixes=True), ['2*x + 0q', '2*x + 0K', '2*x + 0kk'], ['2*x + 0k', '2000m*x'])


def _run(E, g, student):
    from mitxgraders.exceptions import StudentFacingError, ConfigError
    try:
        r = g(None, student)
        return ('ret', r)
    except ConfigError as e:
        return ('config', str(e))
    except StudentFacingError as e:
        return ('refused', type(e).__name__)


def _positive(r):
    g = r['grade_decimal']
    return (g > 0) if not is_sym(g) else g > 0


def h_cheat(E, ci, grader, credit):
    import mitxgraders as m
    name, cfg, cheats, honest, author = CASES[ci]
    cfg = dict(cfg)
    samples = 2
    SX = make_sym_sampler(E, 'x', 1, 2)
    variables = cfg.pop('variables', ['x'])
    sample_from = {'x': SX()}
    if 'c' in variables:
        sample_from['c'] = make_sym_sampler(E, 'c', 2, 3)()
    if 'numbered_vars' in cfg:
        sample_from['a'] = make_sym_sampler(E, 'a', 2, 3)()
    ans = {'expect': author, 'grade_decimal': credit}
    if grader == 'formula':
        g = m.FormulaGrader(answers=ans, variables=variables, sample_from=sample_from, samples=samples, max_array_dim=1, **cfg)
    else:
        g = m.MatrixGrader(answers=ans, variables=variables, sample_from=sample_from, samples=samples, max_array_dim=1, **cfg)
    out = []
    for s in cheats:
        res = _run(E, g, s)
        ok = res[0] == 'refused'
        E.check('restricted-construct-refused-never-credited', ok)
        out.append(res[0])
    for s in honest:
        res = _run(E, g, s)
        E.check('honest-answer-graded', res[0] == 'ret' and bool(near_eq(res[1]['grade_decimal'], credit)) if not is_sym(res[1]['grade_decimal'] if res[0] == 'ret' else 0)
                else (res[0] == 'ret'))
    return out


def h_numerical(E, credit):
    import mitxgraders as m
    c = E.real('c', 2, 3)
    g = m.NumericalGrader(answers={'expect': '2*c', 'grade_decimal': credit}, user_constants={'c': c}, blacklist=['cos'], forbidden_strings=['2*c'], required_functions=['sin'])
    for s in ['2*c', 'c+c', 'c+c+0*cos(c)', 'c+c+0*sin(c)+0*cos(0)', '2 * c+sin(0)', 'c+c+0*zz', 'c+c+0*C']:
        res = _run(E, g, s)
        E.check('restricted-construct-refused-never-credited', res[0] == 'refused')
    res = _run(E, g, 'c+c+sin(0)')
    E.check('honest-answer-graded', res[0] == 'ret' and bool(near_eq(res[1]['grade_decimal'], credit)))
    return 'ok'


def h_sum(E, where):
    """restricted constructs in the summand, the lower limit or the upper limit of a submitted sum"""
    import mitxgraders as m
    SX = make_sym_sampler(E, 'x', 1, 2)
    SC = make_sym_sampler(E, 'c', 2, 3)
    pos = {'summand': {'summand': 1}, 'lower': {'lower': 1}, 'upper': {'upper': 1}, 'all': {'lower': 1, 'upper': 2, 'summand': 3}}[where]
    g = m.SumGrader(answers={'lower': '1', 'upper': '3', 'summand': 'x*n', 'summation_variable': 'n'}, variables=['x', 'c'], sample_from={'x': SX(), 'c': SC()},
                    instructor_vars=['c'], blacklist=['cos'], forbidden_strings=['x*n'] if where in ('summand', 'all') else [], samples=2, input_positions=pos)
    honest = {'summand': 'n*x', 'lower': '1', 'upper': '3', 'all': ['1', '3', 'n*x']}[where]
    if where == 'summand':
        cheats = ['x*n', 'n*x + 0*cos(n)', 'n*x + c - c', 'n*x*c^0', 'x * n', 'n*x + 0*zz', 'n*x + 0*N']
    elif where in ('lower', 'upper'):
        v = honest
        cheats = ['%s + 0*cos(0)' % v, '%s*cos(0)' % v, '%s + c - c' % v, '%s + 0*zz' % v, '%s + 0*floor(cos(x))' % v]
    else:
        cheats = [['1', '3*cos(0)', 'n*x'], ['1*cos(0)', '3', 'n*x'], ['1', '3', 'n*x+0*cos(n)'], ['1', '3 + c - c', 'n*x'], ['1 + 0*c', '3', 'n*x']]
    for s_ in cheats:
        res = _run(E, g, s_)
        E.check('restricted-construct-refused-never-credited', res[0] == 'refused')
    res = _run(E, g, honest)
    E.check('honest-answer-graded', res[0] == 'ret' and res[1]['ok'] is True)
    return 'ok'


def h_instructor_kinds(E, cls):
    """instructor-only names of every kind a sample can contain - plain variable, dependent variable, numbered-variable INSTANCE, user constant - are
    unusable by the student in every grader class, while the author's answer uses them"""
    import mitxgraders as m
    from mitxgraders import DependentSampler
    SX = make_sym_sampler(E, 'x', 1, 2)
    SA = make_sym_sampler(E, 'a', 2, 3)
    common = dict(variables=['x', 'c', 'd'], numbered_vars=['a'], sample_from={'x': SX(), 'a': SA(), 'c': [2, 3], 'd': DependentSampler(formula='c+1')},
                  instructor_vars=['c', 'd', 'a_{0}', 'pi'], samples=1)
    if cls == 'sum':
        g = m.SumGrader(answers={'lower': '1', 'upper': '3', 'summand': 'x*n + 0*(c+d+a_{0}+pi)', 'summation_variable': 'n'}, input_positions={'summand': 1}, **common)
        honest = 'n*x'
    elif cls == 'formula':
        g = m.FormulaGrader(answers='x + 0*(c+d+a_{0}+pi)', **common)
        honest = 'x'
    else:
        g = m.MatrixGrader(answers='x + 0*(c+d+a_{0}+pi)', **common)
        honest = 'x'
    res = _run(E, g, honest)
    E.check('honest-answer-graded', res[0] == 'ret' and res[1]['ok'] is True)
    res = _run(E, g, honest + ' + 0*a_{1}')
    E.check('other-instances-of-the-numbered-variable-stay-usable', res[0] == 'ret' and res[1]['ok'] is True)
    for name in ('c', 'd', 'a_{0}', 'pi'):
        for form in ('%s + %s - %s', '%s*%s^0', '%s + sin(0*%s)'):
            cheat = form % ((honest,) + (name,) * (form.count('%s') - 1))
            res = _run(E, g, cheat)
            E.check('restricted-construct-refused-never-credited', res[0] == 'refused')
    return 'ok'


def h_siblings(E):
    """ordered list whose second answer references the first input: the student cannot use the sibling name, the author can"""
    import mitxgraders as m
    SX = make_sym_sampler(E, 'x', 1, 2)
    g = m.ListGrader(answers=['2*x', 'sibling_1 + 1'], subgraders=m.FormulaGrader(variables=['x'], sample_from={'x': SX()}, samples=2), ordered=True)
    ok = g(None, ['2*x', '2*x+1'])
    E.check('honest-answer-graded', all(e['ok'] is True for e in ok['input_list']))
    ok2 = g(None, ['3*x', '3*x+1'])
    E.check('sibling-reference-follows-the-student-input', ok2['input_list'][1]['ok'] is True and ok2['input_list'][0]['ok'] is False)
    from mitxgraders.exceptions import StudentFacingError
    for second in ['sibling_1 + 1', '2*x + 1 + 0*sibling_1', '2*x+1+sibling_2-sibling_2']:
        try:
            r = g(None, ['2*x', second])
            E.check('restricted-construct-refused-never-credited', False)
        except StudentFacingError as e:
            E.check('restricted-construct-refused-never-credited', True)
    return 'ok'


def h_siblings_many(E, n, k):
    """an ordered list of n boxes whose LAST answer references box k (multi-digit box numbers included): the student can use no sibling name at all,
    whether the answers reference it or not, however the reference cancels"""
    import mitxgraders as m
    from mitxgraders.exceptions import StudentFacingError
    SX = make_sym_sampler(E, 'x', 1, 2)
    answers = ['%d*x' % (i + 1) for i in range(n - 1)] + ['sibling_%d + 1' % k]
    g = m.ListGrader(answers=answers, subgraders=m.FormulaGrader(variables=['x'], sample_from={'x': SX()}, samples=1), ordered=True)
    honest = ['%d*x' % (i + 1) for i in range(n - 1)] + ['%d*x + 1' % k]
    ok = g(None, honest)
    E.check('honest-answer-graded', all(e['ok'] is True for e in ok['input_list']))
    j = E.fork_int('referenced_box', 1, n)
    form = E.choice('form', ['sibling_%d + 1', 'KX + 1 + 0*sibling_%d', 'KX + 1 + sibling_%d - sibling_%d', 'KX + sibling_%d^0'])
    cheat = form.replace('KX', '%d*x' % k).replace('%d', str(j))
    try:
        g(None, honest[:-1] + [cheat])
        E.check('restricted-construct-refused-never-credited', False)
    except StudentFacingError:
        E.check('restricted-construct-refused-never-credited', True)
    return 'ok'


def h_removed_defaults(E, cls):
    """default constants the author removed (user_constants={name: None}) are undefined for the student - all of them, in whatever order they were
    listed and whatever other (non-default) names were listed with them"""
    import mitxgraders as m
    orders = [['I', 'i', 'j'], ['i', 'I', 'j'], ['i', 'j', 'I'], ['zz', 'pi', 'qq', 'e'], ['pi', 'e'], ['j', 'notdefault', 'i', 'pi']]
    names = E.choice('removed', orders)
    SX = make_sym_sampler(E, 'x', 1, 2)
    consts = collections.OrderedDict((n, None) for n in names)
    if cls == 'formula':
        g = m.FormulaGrader(answers='2*x', variables=['x'], sample_from={'x': SX()}, samples=1, user_constants=consts)
        honest = '2*x'
    elif cls == 'matrix':
        g = m.MatrixGrader(answers='2*x', variables=['x'], sample_from={'x': SX()}, samples=1, user_constants=consts)
        honest = '2*x'
    else:
        g = m.NumericalGrader(answers='5', user_constants=consts)
        honest = '5'
    res = _run(E, g, honest)
    E.check('honest-answer-graded', res[0] == 'ret' and res[1]['ok'] is True)
    for n in names:
        if n in ('i', 'j', 'pi', 'e'):
            for form in ('%s + %s - %s', '%s*%s^0', '%s + sin(%s*0)'):
                cheat = form % ((honest,) + (n,) * (form.count('%s') - 1))
                res = _run(E, g, cheat)
                E.check('restricted-construct-refused-never-credited', res[0] == 'refused')
    return 'ok'


def h_suffix_isolation(E):
    """metric suffixes are an option of ONE grader: graders built before or after it, without the option, still refuse `2k`, `0M` ... as undefined
    however the suffix is hidden (cancelling term, exponent zero, function argument)"""
    import mitxgraders as m
    from mitxgraders.exceptions import StudentFacingError
    order = E.choice('metric_grader_built', ['before', 'after', 'both'])
    kind = E.choice('grader', ['formula', 'numerical', 'matrix', 'sum'])
    SX = make_sym_sampler(E, 'x', 1, 2)

    def metric():
        return m.FormulaGrader(answers='2k', metric_suffixes=True)

    def plain():
        if kind == 'formula':
            return m.FormulaGrader(answers='2*x', variables=['x'], sample_from={'x': SX()}, samples=1), '2*x'
        if kind == 'numerical':
            return m.NumericalGrader(answers='2000'), '2000'
        if kind == 'matrix':
            return m.MatrixGrader(answers='2*x', variables=['x'], sample_from={'x': SX()}, samples=1), '2*x'
        return m.SumGrader(answers={'lower': '1', 'upper': '3', 'summand': 'n', 'summation_variable': 'n'}, input_positions={'summand': 1}), None
    if order in ('before', 'both'):
        mg = metric()
        E.check('metric-grader-itself-accepts-suffix', mg(None, '2000')['ok'] is True and mg(None, '2k')['ok'] is True)
    g, honest = plain()
    if order in ('after', 'both'):
        mg2 = metric()
        E.check('metric-grader-itself-accepts-suffix', mg2(None, '2k')['ok'] is True)
    cheats = (['n + 0k', 'n*(1M)^0', 'n + sin(0m)'] if kind == 'sum' else ['%s + 0k' % honest, '%s*(1M)^0' % honest, '%s + sin(0m)' % honest, '2k' if kind == 'numerical' else '2*x+0u'])
    for c in cheats:
        try:
            g(None, c)
            E.check('restricted-construct-refused-never-credited', False)
        except StudentFacingError:
            E.check('restricted-construct-refused-never-credited', True)
    return 'ok'


def h_forbidden_spaces(E, which):
    """spaces inserted at every gap of the submission: the forbidden-string test ignores them"""
    from mitxgraders.helpers.math_helpers import validate_forbidden_strings_not_used
    from mitxgraders.exceptions import InvalidInput
    base = {'sub': '2*x+1', 'nosub': 'x*2+1'}[which]
    s = ''
    for ch in base:
        if E.fork_bool('space_before_%d' % len(s.replace(' ', ''))):
            s += ' '
        s += ch
    forb = ['2 *x', 'x+ x'] if E.fork_bool('spaces_in_forbidden') else ['2*x', 'x+x']
    try:
        validate_forbidden_strings_not_used(s, forb, 'NO')
        err = False
    except InvalidInput as e:
        err = str(e) == 'NO'
    E.check('forbidden-string-test-ignores-spaces', err == (which == 'sub'))
    return err


def harnesses(tier):
    hs = []
    T = tier == 'thorough'

    def add(fn, base, params, bounds, **kw):
        hs.append(Harness(pname(base, **params), fn, tuple(params.values()), FUNCS, bounds, STUBS, **kw))
    add(h_sets, 'sets', {}, 'all membership combinations over 3 default + 1 user + 1 unknown function', validate=False)
    for ci in range(len(CASES)):
        for grader in ('formula', 'matrix'):
            for credit in (1, 0.5):
                add(h_cheat, 'cheat', dict(case=CASES[ci][0], grader=grader, credit=credit), '%d cheating formulas, symbolic samples' % len(CASES[ci][2]))
                hs[-1].params = (ci, grader, credit)
    for credit in (1, 0.5):
        add(h_numerical, 'numerical', dict(credit=credit), 'symbolic constant')
    for where in ('summand', 'lower', 'upper', 'all'):
        add(h_sum, 'sum', dict(where=where), 'symbolic samples; restricted construct in that field')
    for cls in ('formula', 'matrix', 'sum'):
        add(h_instructor_kinds, 'instructor_kinds', dict(cls=cls), 'instructor-only plain / dependent / numbered-instance / constant names x 3 cancelling forms')
    for cls in ('formula', 'matrix', 'numerical'):
        add(h_removed_defaults, 'removed_defaults', dict(cls=cls), '6 orders of removed names x 3 cancelling forms')
    add(h_suffix_isolation, 'suffix_isolation', {}, 'a metric-suffix grader built before / after / both x 4 grader classes x 3-4 hidden suffix uses')
    add(h_siblings, 'siblings', {}, 'symbolic samples')
    for n, k in ((3, 1), (11, 10), (12, 3), (12, 11)):
        add(h_siblings_many, 'siblings_many', dict(n=n, k=k), 'n boxes, last answer references box k; student mentions any sibling_j, 4 cancelling forms')
    for w in ('sub', 'nosub'):
        add(h_forbidden_spaces, 'forbidden_spaces', dict(which=w), 'a space (or none) at each of 5 gaps', validate=False)
    return hs
