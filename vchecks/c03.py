"""C03 - formula strings evaluate to the value mathematics assigns them (operator semantics part; language part on SymStr in c03 O3)."""
import itertools
import math
import numpy as np

from symx import Harness, pname, sand, sor, simplies, siff, near_le, near_eq, snot, sif, smax, is_sym, SymReal

PROPERTY = 'C03'
EXPLANATION = ('For every operator sequence up to the bound over + - * / ^ || (with optional unary minus before operands and on exponents) the '
               'string is pushed through the real MathParser.parse and MathExpression.eval with the operand values as unrestricted z3 reals; an '
               'independent precedence-climbing evaluator written from the documented table (^ tightest, right-associative, signed exponent; '
               'then unary minus; then ||; then * / left-associative; then + - left-associative) builds the reference term over the same values and '
               'z3 decides equality for ALL values (x^y with symbolic exponent is an uninterpreted function, so two different groupings are '
               'never identified). Every rendering of one skeleton (spaces, tabs/newlines between tokens, em-dash minus, redundant parentheses) '
               'must give the same term. Number formats x suffix multipliers and case-sensitive name resolution are checked with symbolic '
               'suffix values / variable values. The accepted LANGUAGE is decided on symbolic strings: for every Unicode string up to the bound the real '
               'parser (real pyparsing on symbolic characters) accepts exactly when an independent recursive-descent recogniser of the documented grammar does.'
               ' Concrete companions (values the solver cannot produce): names bound to every numeric carrier type (python/numpy integers, floats, complex scalars, arrays) and function VALUES flowing through powers and the other operators, compared with cmath references.')
ASSUMPTIONS = ['operands are any reals in [-3,3] (zero included) except bases of powers, which range over [1/2,3] so that real powers are defined; '
               'exponents and all intermediate values are unrestricted', 'x^y with a non-literal exponent is abstracted as an uninterpreted function pow(x,y) on both sides']
BOUNDS = {'quick': 'all operator sequences of length <= 4 (1554 skeletons) x unary-minus placements (none, each single position, all) x 6 renderings; accepted language: all Unicode strings of length <= 3',
          'thorough': 'all operator sequences of length <= 4 (1554 skeletons) x ALL unary-minus placements x 6 renderings; accepted language: length <= 4'}
OUTSIDE = ['numeric values of transcendental ufuncs (numpy C code)', 'IEEE rounding', 'symbolic complex variable bindings (concrete complex bindings of every numeric type are covered)', 'nesting deeper than the generated skeletons',
           'the accepted language beyond the string-length bound']
DEADLINE = {'quick': 600, 'thorough': 2400}
FUNCS = ['expressions.MathParser.parse/raw_parse/get_grammar (real pyparsing)', 'MathExpression.eval/eval_node', 'MathExpression.eval_power', 'eval_negation',
         'eval_parallel', 'eval_product', 'eval_sum', 'eval_number', 'eval_variable', 'robust_pow.robust_pow', 'expressions.evaluator']
STUBS = ['pyparsing leaf shims (language harness only)']
OPS = ['+', '-', '*', '/', '^', '||']
NAMES = 'abcde'


# ------------------------------------------------------------------------------------------------ independent reference evaluator
class Ref:
    """precedence climbing over a token list; tokens: names, operators, 'NEG' (unary minus)"""

    def __init__(self, toks, env):
        self.t = toks
        self.i = 0
        self.env = env

    def peek(self):
        return self.t[self.i] if self.i < len(self.t) else None

    def eat(self):
        tok = self.t[self.i]
        self.i += 1
        return tok

    def sum(self):
        v = self.product()
        while self.peek() in ('+', '-'):
            op = self.eat()
            w = self.product()
            v = v + w if op == '+' else v - w
        return v

    def product(self):
        v = self.parallel()
        while self.peek() in ('*', '/'):
            op = self.eat()
            w = self.parallel()
            v = v * w if op == '*' else v / w
        return v

    def parallel(self):
        vs = [self.neg()]
        while self.peek() == '||':
            self.eat()
            vs.append(self.neg())
        if len(vs) == 1:
            return vs[0]
        for v in vs:
            if v == 0:          # forks on symbolic values; same decision the implementation must take
                return 0
        return 1 / sum(1 / v for v in vs)

    def neg(self):
        if self.peek() == 'NEG':
            self.eat()
            return -self.power()
        return self.power()

    def power(self):
        base = self.atom()
        if self.peek() == '^':
            self.eat()
            sign = 1
            if self.peek() == 'NEG':
                self.eat()
                sign = -1
            e = self.power()
            e = -e if sign < 0 else e
            return base ** e
        return base

    def atom(self):
        return self.env[self.eat()]


def skeleton(ops, negs):
    """tokens for  [-]a op [-]b op ..."""
    toks = []
    for k in range(len(ops) + 1):
        if negs[k]:
            toks.append('NEG')
        toks.append(NAMES[k])
        if k < len(ops):
            toks.append(ops[k])
    return toks


def render(toks, style):
    out = []
    for t in toks:
        s = '-' if t == 'NEG' else t
        if style == 'emdash' and t in ('NEG', '-'):
            s = '—'
        if style == 'parens' and t in NAMES:
            s = '((%s))' % t
        out.append(s)
    sep = {'plain': '', 'spaced': ' ', 'tabs': '\t', 'newlines': ' \n ', 'emdash': '', 'parens': ''}[style]
    return sep.join(out)


STYLES = ['plain', 'spaced', 'tabs', 'newlines', 'emdash', 'parens']


def valid_neg(ops, negs):
    # '--' sequences: binary minus followed by unary minus is legal (a - -b); NEG after '^' is the exponent sign; all fine.
    return True


def h_ops(E, ops, negs):
    from mitxgraders.helpers.calc.expressions import evaluator, DEFAULT_FUNCTIONS, DEFAULT_SUFFIXES
    from mitxgraders.helpers.calc.exceptions import CalcZeroDivisionError, CalcError
    # a variable used as the base of a power is positive (real powers defined); every other operand is any real in [-3,3] (zero included)
    env = {}
    for k in range(len(ops) + 1):
        is_base = k < len(ops) and ops[k] == '^'
        env[NAMES[k]] = E.real(NAMES[k], 0.5, 3) if is_base else E.real(NAMES[k], -3, 3)
    toks = skeleton(ops, negs)
    try:
        want = Ref(toks, env).sum()
        want_exc = None
    except ZeroDivisionError:
        want, want_exc = None, 'zero'
    results = []
    for style in STYLES:
        s = render(toks, style)
        try:
            got, _ = evaluator(s, dict(env), DEFAULT_FUNCTIONS, DEFAULT_SUFFIXES)
            got_exc = None
        except CalcZeroDivisionError:
            got, got_exc = None, 'zero'
        E.check('same-division-by-zero-behaviour', got_exc == want_exc)
        if got_exc is None and want_exc is None:
            E.check('value-equals-documented-semantics', near_eq(got, want))
        results.append(got_exc or 'value')
    return results


def h_numbers(E, lit, suffix):
    """number literal formats x symbolic suffix multipliers"""
    from mitxgraders.helpers.calc.expressions import evaluator, DEFAULT_FUNCTIONS
    sk = E.real('suffix_k', -5, 5)
    sp = E.real('suffix_pct', -5, 5)
    sm = E.real('suffix_m', -5, 5)
    suffixes = {'k': sk, '%': sp, 'm': sm}
    x = E.real('x', -3, 3)
    s = lit + suffix
    val = float(lit.replace(' ', ''))
    want = val * suffixes[suffix] if suffix else val
    got, meta = evaluator(s + '+x', {'x': x}, DEFAULT_FUNCTIONS, suffixes)
    E.check('literal-times-suffix', near_eq(got, want + x))
    E.check('suffix-usage-reported', meta.suffixes_used == ({suffix} if suffix else set()))
    return 'ok'


VARS = ['x', 'X', "x'", 'x_1', 'x1', 'T_{1}^{2}', 'T_{1}', "xX''", 'e1', 'pi2']


def h_names(E, form):
    """case-sensitive resolution of plain, primed, subscripted and tensor names; default constants untouched"""
    from mitxgraders.helpers.calc.expressions import evaluator, DEFAULT_FUNCTIONS, DEFAULT_SUFFIXES, DEFAULT_VARIABLES
    env = dict(DEFAULT_VARIABLES)
    vals = {}
    for k, name in enumerate(VARS):
        vals[name] = E.real('v%d' % k, -3, 3)
        env[name] = vals[name]
    if form == 'sum':
        s = '+'.join('%d*%s' % (k + 2, name) for k, name in enumerate(VARS))
        want = sum((k + 2) * vals[name] for k, name in enumerate(VARS))
    elif form == 'constants':
        s = "x + pi*X + e*x' + 2*pi2"
        want = vals['x'] + math.pi * vals['X'] + math.e * vals["x'"] + 2 * vals['pi2']
    else:
        s = "x*X - x'*x_1 + T_{1}^{2}*T_{1} - x1^2"
        want = vals['x'] * vals['X'] - vals["x'"] * vals['x_1'] + vals['T_{1}^{2}'] * vals['T_{1}'] - vals['x1'] * vals['x1']
    got, meta = evaluator(s, env, DEFAULT_FUNCTIONS, DEFAULT_SUFFIXES)
    E.check('names-resolve-case-sensitively', near_eq(got, want))
    return 'ok'


def _bindings():
    from mitxgraders.helpers.calc.math_array import MathArray
    return [('int', 3), ('big-int', 2 ** 70), ('float', 2.5), ('complex', 1.5 + 2j), ('np.float64', np.float64(2.5)), ('np.float32', np.float32(0.5)),
            ('np.int64', np.int64(7)), ('np.int32', np.int32(-4)), ('np.complex128', np.complex128(1.5 + 2j)), ('np.complex64', np.complex64(0.5 - 1j)),
            ('bool-free-zero', 0), ('negative-float', -0.75), ('array', MathArray([1.0, 2.0])), ('complex-array', MathArray([1 + 1j, 2.0]))]


def h_bindings(E, idx):
    """names resolve to the SUPPLIED value whatever numeric type carries it (python and numpy integers, floats, complex numbers, arrays):
    the value of `z`, of `2*z+1` and of `z*z` is the one arithmetic gives for that value; the second operand is symbolic"""
    from mitxgraders.helpers.calc.expressions import evaluator, DEFAULT_FUNCTIONS, DEFAULT_SUFFIXES
    kind, val = _bindings()[idx]
    t = E.real('t', -3, 3)
    ref = complex(val) if not hasattr(val, 'shape') or val.shape == () else None
    v1, _ = evaluator('z', {'z': val}, DEFAULT_FUNCTIONS, DEFAULT_SUFFIXES, max_array_dim=1)
    v2, _ = evaluator('z*t + 1' if ref is not None else 'z*t', {'z': val, 't': t}, DEFAULT_FUNCTIONS, DEFAULT_SUFFIXES, max_array_dim=1)
    if ref is not None:
        E.check('name-resolves-to-supplied-value', complex(v1) == ref)
        want_re, want_im = ref.real * t + 1, ref.imag * t
        got_re, got_im = (v2.real, v2.imag) if hasattr(v2, 'imag') else (v2, 0)
        E.check('arithmetic-on-supplied-value', sand(near_eq(got_re, want_re), near_eq(got_im, want_im)))
    else:
        arr = np.asarray(val)
        E.check('name-resolves-to-supplied-value', v1.shape == arr.shape and all(complex(a) == complex(b) for a, b in zip(np.asarray(v1).ravel(), arr.ravel())))
        got = [v2[i] for i in range(arr.shape[0])]
        E.check('arithmetic-on-supplied-value', sand(*[sand(near_eq(getattr(g, 'real', g), complex(a).real * t), near_eq(getattr(g, 'imag', 0), complex(a).imag * t))
                                                       for g, a in zip(got, arr)]))
    return kind


FUNC_POW = ['arccot(0)', 'arccot(x-x)+arccot(0.5*i)', 'arccot(0*i)', 'arccot(-0.0)', 'arctan(0)+arccot(0)', 'sin(4)^0.5', 'cos(2)^(1/3)', '(0-cos(1))^0.5', 'ln(0.5)^0.5', 'sin(4)^2', '2^sin(4)', 'sin(4)^-1', 'sqrt(4)^0.5', 'abs(-2)^0.5', 'exp(1)^sin(4)',
            'sin(4)||cos(2)', '-sin(4)^0.5', 'sin(x)^y', 'tan(2)^1.5', 'arctan(-3)^0.25', 'sin(4)^(1/2)*cos(2)^(1/2)', '(sin(4)*cos(2))^0.5', 'sin(4)/cos(2)^0.5',
            'sinh(-1)^0.5', 'floor(-1.5)^0.5', 'min(-2,3)^0.5', 're(-4)^0.5', 'conj(-4)^0.5', 'kronecker(1,1)^0.5', '(sin(4)^0.5)^2', 'x^y', 'x^0.5', '(0-y)^x']


def h_function_power(E, idx):
    """values RETURNED by functions (numpy scalars inside the evaluator) flow through the operators like any other number: negative bases with
    fractional exponents give the principal complex root, never a foreign exception or nan.  Concrete companion (transcendental values are outside the
    solver's reach): reference values by cmath."""
    import cmath
    from mitxgraders.helpers.calc.expressions import evaluator, DEFAULT_FUNCTIONS, DEFAULT_SUFFIXES
    expr = FUNC_POW[idx]
    env = {'x': -2.0, 'y': 0.5, 'i': 1j}
    got, _ = evaluator(expr, env, DEFAULT_FUNCTIONS, DEFAULT_SUFFIXES)
    ns = {'sin': lambda z: complex(math.sin(z)), 'cos': lambda z: complex(math.cos(z)), 'tan': lambda z: complex(math.tan(z)), 'ln': lambda z: complex(math.log(z)),
          'sqrt': cmath.sqrt, 'abs': lambda z: complex(abs(z)), 'exp': lambda z: complex(math.exp(z)), 'arctan': lambda z: complex(math.atan(z)),
          'sinh': lambda z: complex(math.sinh(z)), 'floor': lambda z: complex(math.floor(z)), 'min': lambda *a: complex(min(a)), 're': lambda z: complex(z.real),
          'arccot': lambda z: (cmath.atan(1 / z) if z != 0 else complex(math.pi / 2)) if (complex(z).real >= 0) else cmath.atan(1 / z) + math.pi, 'i': 1j,
          'conj': lambda z: complex(z).conjugate() if complex(z).imag != 0 else complex(complex(z).real), 'kronecker': lambda a, b: complex(1 if a == b else 0), 'x': -2.0, 'y': 0.5}
    py = expr.replace('^', '**')
    if '||' in py:
        a, b = py.split('||')
        want = 1 / (1 / eval(a, ns) + 1 / eval(b, ns))    # noqa
    else:
        want = eval(py, ns)       # noqa - Python's ** has the documented precedence and associativity of ^ (tighter than unary minus, right-assoc.)
    E.check('function-values-flow-through-operators', abs(complex(got) - complex(want)) <= 1e-9 * (1 + abs(want)))
    return 'ok'


TINY = [('exp(-800)', 0.0), ('1+exp(-745.5)', 1.0), ('exp(-x^2)', 0.0), ('1e-200*[1e-200,1]', [0.0, 1e-200]), ('[1,2e-170]/5e150', [2e-151, 0.0]), ('1e-200*1e-200', 0.0),
        ('2^-1080', 0.0), ('sin(1e-320)', 1e-320), ('exp(-800)*exp(800-800)', 0.0), ('(1e-300)^2+1', 1.0)]


def h_tiny(E, idx):
    """results too small for a double are the number they round to (zero, or a subnormal): underflow is not an error"""
    from mitxgraders.helpers.calc.expressions import evaluator, DEFAULT_FUNCTIONS, DEFAULT_SUFFIXES
    expr, want = TINY[idx]
    got, _ = evaluator(expr, {'x': 30.0}, DEFAULT_FUNCTIONS, DEFAULT_SUFFIXES, max_array_dim=1)
    if isinstance(want, list):
        E.check('underflow-gives-the-rounded-value', len(got) == len(want) and all(abs(float(g) - w) <= 1e-12 * (abs(w) + 1e-300) + 1e-310 for g, w in zip(got, want)))
    else:
        E.check('underflow-gives-the-rounded-value', abs(float(got) - want) <= 1e-12 * abs(want) + 1e-310)
    return 'ok'


SI = {'k': 1e3, 'M': 1e6, 'G': 1e9, 'T': 1e12, 'm': 1e-3, 'u': 1e-6, 'n': 1e-9, 'p': 1e-12, '%': 0.01}


def h_suffix_table(E, suffix):
    """the metric suffixes and the percent sign multiply by their SI values: x followed by the suffix equals x times 10^k for a symbolic mantissa
    rendered as a literal (the table itself is data the solver cannot see, so each entry is pinned here)"""
    from mitxgraders.helpers.calc.expressions import evaluator, DEFAULT_FUNCTIONS
    from mitxgraders.helpers.calc.mathfuncs import METRIC_SUFFIXES, DEFAULT_SUFFIXES
    import mitxgraders as m
    table = dict(DEFAULT_SUFFIXES, **METRIC_SUFFIXES)
    E.check('suffix-has-its-SI-value', suffix in table and table[suffix] == SI[suffix])
    E.check('no-other-suffixes', set(table) == set(SI))
    x = E.real('x', -3, 3)
    got, _ = evaluator('x*3%s + 2%s' % (suffix, suffix), {'x': x}, DEFAULT_FUNCTIONS, table)
    # the code multiplies literal and suffix as doubles first
    E.check('suffix-multiplies-the-literal', near_eq(got, x * (3 * SI[suffix]) + (2 * SI[suffix])))
    g = m.NumericalGrader(answers=repr(5 * SI[suffix]), metric_suffixes=True, tolerance=1e-15 * SI[suffix])
    E.check('graders-use-the-same-table', g(None, '5' + suffix)['ok'] is True)
    return 'ok'


def h_undefined(E, name):
    from mitxgraders.helpers.calc.expressions import evaluator, DEFAULT_FUNCTIONS, DEFAULT_SUFFIXES
    from mitxgraders.helpers.calc.exceptions import UndefinedVariable, UndefinedFunction
    x = E.real('x', -3, 3)
    try:
        evaluator(name, {'x': x}, DEFAULT_FUNCTIONS, DEFAULT_SUFFIXES)
        E.check('other-case-is-undefined', False)
    except (UndefinedVariable, UndefinedFunction):
        E.check('other-case-is-undefined', True)
    return 'raised'


def h_frontdoor(E, which):
    from mitxgraders.helpers.calc.expressions import evaluator
    from mitxgraders.helpers.calc.exceptions import UnableToParse
    if which in ('none', 'blank', 'spaces'):
        v, meta = evaluator({'none': None, 'blank': '', 'spaces': '   '}[which])
        E.check('blank-is-nan', v != v and not meta.variables_used)
        return 'nan'
    x = E.real('x', -3, 3)
    try:
        evaluator('[x, 1]', {'x': 2.0}, max_array_dim=0)
        E.check('arrays-refused-when-max_array_dim-0', False)
    except UnableToParse:
        E.check('arrays-refused-when-max_array_dim-0', True)
    return 'raised'


INVALID = ['1\t2', 'a\tb', '1.\t5', '1e\t3', '1\n2', 'a\rb', '1\xa0+\xa02', 'a\u2003b', 'a++b', 'a**b', 'a(b)c', '()', 'f()', 'a+', '*a', 'a^^b', 'a||', '|a', 'a|b', 'a---b', 'a^--b', '2 . 3 . 4', 'a,b', 'a;b', 'a=b', 'a!',
           '[', '[]', '[1,]', 'a^', '--a', 'a+*b', 'sin()', '(a', 'a)', 'a×b', '١', 'a−b', '1e+', '.', '1..2', 'a.b',
           '1_000', '2e1_0', '1_0.5', '١٢٣', '１２', '1２', '1__0', '1e1_0', '0_0', '1٢', ' 1_0 ', '1_0\n']


def h_invalid(E, idx):
    from mitxgraders.helpers.calc.expressions import parse, evaluator, DEFAULT_FUNCTIONS, DEFAULT_SUFFIXES
    from mitxgraders.helpers.calc.exceptions import UnableToParse, UnbalancedBrackets
    s = INVALID[idx]
    # the public evaluation entry point must refuse the string just as the parser does (no shortcut around the grammar)
    try:
        v, _ = evaluator(s, {'a': 1.5, 'b': 2.5, 'c': 3.5}, DEFAULT_FUNCTIONS, DEFAULT_SUFFIXES, max_array_dim=1)
        E.check('outside-grammar-rejected-by-the-evaluator-too', False)
    except (UnableToParse, UnbalancedBrackets):
        E.check('outside-grammar-rejected-by-the-evaluator-too', True)
    try:
        parse(s)
        E.check('outside-grammar-rejected-with-parse-error', False)
        return 'accepted'
    except (UnableToParse, UnbalancedBrackets) as e:
        E.check('outside-grammar-rejected-with-parse-error', True)
        return type(e).__name__


LITERALS = ['12', '1.5e-3', '1e5', '00012', '1e999', '9' * 400, '1e-400', '12.', '.5', '1E3', '2k', '50%', '1 000', '3.0e+2', '0', '0.0', '1e0']


def h_literal_frontdoor(E, idx):
    """a bare number goes through the same grammar and the same number evaluation as everything else: the public evaluator gives exactly what
    parse + eval of a fresh parser give (value or error class), also for huge and tiny exponents"""
    from mitxgraders.helpers.calc.expressions import evaluator, MathParser, DEFAULT_FUNCTIONS, DEFAULT_SUFFIXES
    from mitxgraders.exceptions import MITxError
    s = LITERALS[idx]
    sfx = dict(DEFAULT_SUFFIXES, k=1000.0)

    def outcome(f):
        try:
            v = f()
            return ('value', repr(float(v)) if not isinstance(v, complex) else repr(v))
        except MITxError as e:
            return ('error', type(e).__name__)
    a = outcome(lambda: evaluator(s, {}, DEFAULT_FUNCTIONS, sfx)[0])
    b = outcome(lambda: MathParser().parse(s.replace(' ', '')).eval({}, DEFAULT_FUNCTIONS, sfx)[0])
    E.check('evaluator-is-parse-then-eval', a == b)
    return a[0]


# ------------------------------------------------------------------------------------------------ O3: the accepted language
import string as _string
_ALPHA = _string.ascii_letters
_ALNUM = _string.ascii_letters + _string.digits
_DIG = _string.digits
_WS = ' \t\n\r'
_MINUS = '-—'


class Recogniser:
    """independent recursive-descent recogniser of the documented expression grammar over a list of SymChar (ordered choice, greedy
    repetition - the reading of the documented BNF); every rule returns the end position or None"""

    def __init__(self, chars):
        self.c = chars
        self.n = len(chars)

    def at(self, i, chars):
        return i < self.n and bool(self.c[i].in_set(chars))

    def ws(self, i):
        while self.at(i, _WS):
            i += 1
        return i

    def run(self, i, chars):
        while self.at(i, chars):
            i += 1
        return i

    def accepts(self):
        e = self.expr(0)
        return e is not None and self.ws(e) == self.n

    def expr(self, i):
        j = self.ws(i)
        if self.at(j, '+'):
            j += 1
        e = self.product(j)
        if e is None:
            return None
        while True:
            k = self.ws(e)
            if not self.at(k, '+' + _MINUS):
                return e
            e2 = self.product(k + 1)
            if e2 is None:
                return e
            e = e2

    def product(self, i):
        e = self.parallel(i)
        if e is None:
            return None
        while True:
            k = self.ws(e)
            if not self.at(k, '*/'):
                return e
            e2 = self.parallel(k + 1)
            if e2 is None:
                return e
            e = e2

    def parallel(self, i):
        e = self.negation(i)
        if e is None:
            return None
        while True:
            k = self.ws(e)
            if not self.at(k, '|'):
                return e
            k2 = self.ws(k + 1)
            if not self.at(k2, '|'):
                return e
            e2 = self.negation(k2 + 1)
            if e2 is None:
                return e
            e = e2

    def negation(self, i):
        j = self.ws(i)
        if self.at(j, _MINUS):
            j += 1
        return self.power(j)

    def power(self, i):
        e = self.atom(i)
        if e is None:
            return None
        while True:
            k = self.ws(e)
            if not self.at(k, '^'):
                return e
            k = self.ws(k + 1)
            if self.at(k, _MINUS):
                k += 1
            e2 = self.atom(k)
            if e2 is None:
                return e
            e = e2

    def atom(self, i):
        j = self.ws(i)
        for rule in (self.number, self.function, self.name, self.parens, self.array):
            e = rule(j)
            if e is not None:
                return e
        return None

    def number(self, i):
        j = self.run(i, _DIG)
        if j > i:
            if self.at(j, '.'):
                j = self.run(j + 1, _DIG)
        elif self.at(i, '.'):
            j = self.run(i + 1, _DIG)
            if j == i + 1:
                return None
        else:
            return None
        if self.at(j, 'eE'):
            k = j + 1
            if self.at(k, '+' + _MINUS):
                k += 1
            k2 = self.run(k, _DIG)
            if k2 > k:
                j = k2
        k = self.ws(j)
        k2 = self.run(k, _ALPHA + '%')
        return k2 if k2 > k else j

    def name(self, i):
        if not self.at(i, _ALPHA):
            return None
        j = self.run(i + 1, _ALNUM)
        k = self.run(j, _ALNUM + '_')
        if k > j and not self.at(k, '{'):
            j = k
        else:
            for opener in ('_', '^'):
                if self.at(j, opener) and self.at(j + 1, '{'):
                    k = j + 2
                    if self.at(k, '-'):
                        k += 1
                    k2 = self.run(k, _ALNUM)
                    if k2 > k and self.at(k2, '}'):
                        j = k2 + 1
        return self.run(j, "'")

    def arglist(self, i, closer):
        e = self.expr(i)
        if e is None:
            return None
        while True:
            k = self.ws(e)
            if not self.at(k, ','):
                break
            e2 = self.expr(k + 1)
            if e2 is None:
                break
            e = e2
        k = self.ws(e)
        return k + 1 if self.at(k, closer) else None

    def function(self, i):
        j = self.name(i)
        if j is None:
            return None
        k = self.ws(j)
        if not self.at(k, '('):
            return None
        return self.arglist(k + 1, ')')

    def parens(self, i):
        if not self.at(i, '('):
            return None
        e = self.expr(i + 1)
        if e is None:
            return None
        k = self.ws(e)
        return k + 1 if self.at(k, ')') else None

    def array(self, i):
        if not self.at(i, '['):
            return None
        return self.arglist(i + 1, ']')


def _balanced(chars):
    stack = []
    for c in chars:
        for o, cl in zip('([{', ')]}'):
            if bool(c == o):
                stack.append(cl)
                break
            if bool(c == cl):
                if not stack or stack.pop() != cl:
                    return False
                break
    return not stack


_PP = {}


def h_language(E, N):
    import mitxgraders.helpers.calc.expressions as X
    from mitxgraders.helpers.calc.exceptions import UnableToParse, UnbalancedBrackets
    from symx.text import SymStr, K, fresh_str, any_unicode
    from symx import ppshim
    if 'p' not in _PP:
        _PP['p'] = X.MathParser()
    P = _PP['p']
    P.cache = {}
    s = fresh_str(E, 's', N, any_unicode, minlen=1)
    with ppshim.installed(P.grammar):
        try:
            P.parse(s)
            got = 'accepted'
        except UnbalancedBrackets:
            got = 'unbalanced'
        except UnableToParse:
            got = 'rejected'
    chars = s.ch if isinstance(s, SymStr) else [K(c) for c in s]
    stripped = [c for c in chars if not bool(c == ' ')]          # spaces are removed anywhere before parsing
    if not _balanced(stripped):
        want = 'unbalanced'
    else:
        want = 'accepted' if Recogniser(stripped).accepts() else 'rejected'
    E.check('accepted-language-is-the-documented-grammar', got == want)
    return got


def selftest():
    from symx import text, ppshim
    text.selftest(rounds=25)
    ppshim.selftest()


def harnesses(tier):
    hs = []
    T = tier == 'thorough'
    L = 4

    def add(fn, base, params, bounds, **kw):
        hs.append(Harness(pname(base, **params), fn, tuple(params.values()), FUNCS, bounds, STUBS, **kw))
    for n in range(1, L + 1):
        for ops in itertools.product(OPS, repeat=n):
            if T:
                negsets = list(itertools.product((False, True), repeat=n + 1))
            else:
                negsets = [tuple(False for _ in range(n + 1))] + [tuple(k == j for k in range(n + 1)) for j in range(n + 1)] + [tuple(True for _ in range(n + 1))]
            for negs in negsets:
                nm = pname('ops', seq=''.join(ops).replace('||', 'P'), neg=''.join('1' if b else '0' for b in negs))
                hs.append(Harness(nm, h_ops, (ops, negs), FUNCS, 'operands any reals in [-3,3] (power bases in [1/2,3]); 6 renderings', STUBS, validate=True))
    for lit in ['2', '2.', '.5', '2.50', '1e2', '1E2', '1e+2', '1.5e-2', '007', '2.5 ']:
        for suf in ['', 'k', '%', 'm']:
            add(h_numbers, 'number', dict(lit=lit.strip() + ('_' if lit.endswith(' ') else ''), suffix=suf or 'none'), 'symbolic suffix multipliers')
            hs[-1].params = (lit.strip(), suf)
    for form in ('sum', 'constants', 'mixed'):
        add(h_names, 'names', dict(form=form), '10 symbolic variables with confusable names')
    for sfx in SI:
        add(h_suffix_table, 'suffix_table', dict(suffix=sfx), 'symbolic factor')
    for i in range(len(TINY)):
        add(h_tiny, 'tiny', dict(i=i), TINY[i][0], validate=False)
    for i in range(len(FUNC_POW)):
        add(h_function_power, 'function_power', dict(i=i), FUNC_POW[i], validate=False)
    for i in range(len(_bindings())):
        add(h_bindings, 'bindings', dict(i=i, kind=_bindings()[i][0]), 'value of that numeric type times a symbolic real')
        hs[-1].params = (i,)
    for nm in ['X', 'x_', 'SIN(x)', 'Pi', 'Sqrt(x)', "x''", 'x_2', 'E']:
        add(h_undefined, 'undefined', dict(name=nm), 'only x defined')
    for w in ('none', 'blank', 'spaces', 'array'):
        add(h_frontdoor, 'frontdoor', dict(which=w), '')
    for i in range(len(LITERALS)):
        add(h_literal_frontdoor, 'literal_frontdoor', dict(i=i), LITERALS[i][:20], validate=False)
    for i in range(len(INVALID)):
        add(h_invalid, 'invalid', dict(i=i), repr(INVALID[i]))
    add(h_language, 'language', dict(N=4 if T else 3), 'all Unicode strings up to that length: accepted iff in the documented grammar', max_paths=300000 if T else None)
    return hs
