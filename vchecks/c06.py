"""C06 - Munkres returns a complete minimum-cost matching for any matrix (bounded shapes, all real entries)."""
import itertools

from symx import Harness, pname, sand, sor, smin, near_le, near_eq, Abort

PROPERTY = 'C06'
EXPLANATION = ('Munkres.compute / pad_matrix / make_cost_matrix from /repo are executed on matrices whose r*c entries are z3 reals in '
               '[0, 10^6]; every feasible execution path of the real algorithm is enumerated and on each path z3 decides that the '
               'returned pairs form a complete matching whose total is <= the total of EVERY matching, for all entry values of '
               'that path (ties included). Counterexamples are replayed concretely before being reported.')
ASSUMPTIONS = ['entries are finite reals in [0, 10^6] (ints and floats alike); entries above sys.maxsize are outside the claim',
               'DISALLOWED entries are not used by the library and are outside the claim']
BOUNDS = {'quick': 'all shapes r,c <= 3 with real entries (exhaustive over paths), with the Hungarian invariants monitored after every step; every 4x4 matrix over {0,1}; inductive steps 1 (n<=4) and 6 (n<=3) from arbitrary states; solver reuse: a concrete first solve followed by a symbolic 2x3/3x2 solve',
          'thorough': 'r,c <= 3 plus 3x4, 4x3, 2x4, 4x2, 2x5, 5x2, 4x4 (path budget per shape; exhaustive flag per harness)'}
OUTSIDE = ['IEEE rounding of reduced costs', 'entries > sys.maxsize', 'DISALLOWED entries', 'shapes beyond the bounds']
DEADLINE = {'quick': 600, 'thorough': 2400}
FUNCS = ['mitxgraders.helpers.munkres.Munkres.compute', 'Munkres.pad_matrix', 'Munkres.__step1..__step6', 'Munkres.__find_smallest',
         'Munkres.__find_a_zero', 'Munkres.__convert_path', 'munkres.make_cost_matrix']


def matchings(r, c):
    k = min(r, c)
    if r <= c:
        for cols in itertools.permutations(range(c), k):
            yield list(zip(range(r), cols))
    else:
        for rows in itertools.permutations(range(r), k):
            yield list(zip(rows, range(c)))


def _check_result(E, tag, orig, m, res, r, c):
    k = min(r, c)
    E.check(tag + 'count', len(res) == k)
    rows = [i for i, _ in res]
    cols = [j for _, j in res]
    E.check(tag + 'matching', len(set(rows)) == len(rows) and len(set(cols)) == len(cols)
            and all(0 <= i < r for i in rows) and all(0 <= j < c for j in cols))
    E.check(tag + 'unmodified', len(m) == r and all(len(m[i]) == c and all(m[i][j] is orig[i][j] for j in range(c)) for i in range(r)))
    if len(res) != k:
        return
    tot = sum(orig[i][j] for i, j in res)
    E.check(tag + 'optimal', sand(*[near_le(tot, sum(orig[i][j] for i, j in alt)) for alt in matchings(r, c)]))


def h_munkres(E, r, c):
    from mitxgraders.helpers.munkres import Munkres
    m = [[E.real('m%d_%d' % (i, j), 0, 10 ** 6) for j in range(c)] for i in range(r)]
    orig = [row[:] for row in m]
    res = Munkres().compute(m)
    _check_result(E, '', orig, m, res, r, c)
    return [list(p) for p in res]


FIRST = {'sq3': [[4, 1, 3], [2, 0, 5], [3, 2, 2]], 'wide': [[1, 2, 3, 4], [2, 4, 6, 8]], 'tall': [[5, 1], [1, 5], [3, 3], [0, 9]]}


def h_reuse(E, first, r, c):
    """same Munkres object reused: concrete first solve of another shape, then a symbolic solve"""
    from mitxgraders.helpers.munkres import Munkres
    M = Munkres()
    f = [row[:] for row in FIRST[first]]
    r1 = M.compute(f)
    E.check('first-unmodified', f == FIRST[first])
    t1 = sum(f[i][j] for i, j in r1)
    E.check('first-optimal', all(t1 <= sum(f[i][j] for i, j in alt) for alt in matchings(len(f), len(f[0]))))
    m = [[E.real('m%d_%d' % (i, j), 0, 10 ** 6) for j in range(c)] for i in range(r)]
    orig = [row[:] for row in m]
    res = M.compute(m)
    _check_result(E, '', orig, m, res, r, c)
    return [list(p) for p in res]


def h_profit(E, n):
    """make_cost_matrix with the library's inversion (1 - g) on grades in [0,1]: maximum-profit matching"""
    from mitxgraders.helpers.munkres import Munkres, make_cost_matrix
    g = [[E.real('g%d_%d' % (i, j), 0, 1) for j in range(n)] for i in range(n)]
    cost = make_cost_matrix(g, lambda x: 1 - x)
    E.check('profit-untouched', all(g[i][j] is not cost[i][j] for i in range(n) for j in range(n)))
    res = Munkres().compute(cost)
    tot = sum(g[i][j] for i, j in res)
    E.check('max-profit', sand(*[near_le(sum(g[i][j] for i, j in alt), tot) for alt in matchings(n, n)]))
    return [list(p) for p in res]


def h_invariants(E, r, c, hi):
    """the Hungarian invariants monitored after EVERY step of a complete run: reduced costs stay >= 0, stars sit on zeros and are independent,
    and step 5 leaves neither primes nor covers behind"""
    from mitxgraders.helpers.munkres import Munkres
    M = Munkres()
    names = ['_Munkres__step%d' % k for k in range(1, 7)]
    if not all(hasattr(M, a) for a in names):
        E.check('skipped-internals-renamed', True)
        return 'skipped'
    m = [[(E.int('m%d_%d' % (i, j), 0, hi) if hi else E.real('m%d_%d' % (i, j), 0, 10 ** 6)) for j in range(c)] for i in range(r)]
    trace = []

    def wrap(k, f):
        def g():
            nxt = f()
            n = M.n
            conds = [near_le(0, M.C[i][j]) for i in range(n) for j in range(n)]
            struct = True
            if k >= 2:
                stars = [(i, j) for i in range(n) for j in range(n) if M.marked[i][j] == 1]
                conds += [near_eq(M.C[i][j], 0) for i, j in stars]
                struct = len({i for i, _ in stars}) == len(stars) == len({j for _, j in stars})
            if k == 5:
                struct = struct and not any(M.marked[i][j] == 2 for i in range(n) for j in range(n)) and not any(M.row_covered) and not any(M.col_covered)
            E.check('hungarian-invariants-after-step-%d' % k, sand(struct, *conds))
            trace.append(k)
            return nxt
        return g
    for k, a in enumerate(names, 1):
        setattr(M, a, wrap(k, getattr(M, a)))
    orig = [row[:] for row in m]
    res = M.compute(m)
    _check_result(E, '', orig, m, res, r, c)
    return [list(p) for p in res]


def h_step6(E, n):
    """inductive step: from ANY state in which step 6 can be entered (C >= 0, no uncovered zero, some uncovered cell) the real
    __step6 performs a dual transformation: C'[i][j] = C[i][j] + [row i covered]*d - [col j uncovered]*d with d the smallest
    uncovered entry, keeps C' >= 0 on uncovered cells and zeros of covered-row/uncovered... unchanged, and returns to step 4."""
    from mitxgraders.helpers.munkres import Munkres
    M = Munkres()
    if not all(hasattr(M, a) for a in ('_Munkres__step6', 'C', 'row_covered', 'col_covered', 'n')):
        E.check('skipped-internals-renamed', True)
        return 'skipped'
    rc = [E.fork_bool('rc%d' % i) for i in range(n)]
    cc = [E.fork_bool('cc%d' % j) for j in range(n)]
    if all(rc) or all(cc):
        raise Abort()
    C = [[E.real('c%d_%d' % (i, j), 0, 10 ** 6) for j in range(n)] for i in range(n)]
    unc = [C[i][j] for i in range(n) for j in range(n) if not rc[i] and not cc[j]]
    for v in unc:
        E.assume(v > 0)
    M.n = n
    M.C = [row[:] for row in C]
    M.row_covered = list(rc)
    M.col_covered = list(cc)
    nxt = M._Munkres__step6()
    d = unc[0]
    for v in unc[1:]:
        d = smin(d, v)
    ok = [near_eq(M.C[i][j], C[i][j] + (d if rc[i] else 0) - (0 if cc[j] else d)) for i in range(n) for j in range(n)]
    E.check('step6-dual-transformation', sand(*ok))
    E.check('step6-uncovered-nonneg', sand(*[near_le(0, M.C[i][j]) for i in range(n) for j in range(n) if not rc[i] and not cc[j]]))
    E.check('step6-next', nxt == 4 and M.row_covered == rc and M.col_covered == cc)
    return nxt


def h_step1(E, n):
    """inductive step: __step1 subtracts each row's minimum (dual transformation), leaves C >= 0 with a zero in every row"""
    from mitxgraders.helpers.munkres import Munkres
    M = Munkres()
    if not all(hasattr(M, a) for a in ('_Munkres__step1', 'C', 'n')):
        E.check('skipped-internals-renamed', True)
        return 'skipped'
    C = [[E.real('c%d_%d' % (i, j), 0, 10 ** 6) for j in range(n)] for i in range(n)]
    M.n = n
    M.C = [row[:] for row in C]
    nxt = M._Munkres__step1()
    for i in range(n):
        d = C[i][0]
        for v in C[i][1:]:
            d = smin(d, v)
        E.check('step1-row-reduced', sand(*[near_eq(M.C[i][j], C[i][j] - d) for j in range(n)]))
        E.check('step1-nonneg-with-zero', sand(sand(*[near_le(0, M.C[i][j]) for j in range(n)]), sor(*[near_eq(M.C[i][j], 0) for j in range(n)])))
    E.check('step1-next', nxt == 2)
    return nxt


def harnesses(tier):
    hs = []
    shapes = [(r, c) for r in (1, 2, 3) for c in (1, 2, 3)]
    for r, c in shapes:
        hs.append(Harness(pname('munkres', r=r, c=c), h_munkres, (r, c), FUNCS, 'all real entries in [0,1e6], shape %dx%d' % (r, c)))
    for first, r, c in [('sq3', 2, 3), ('wide', 3, 2), ('tall', 2, 2)]:
        hs.append(Harness(pname('reuse', first=first, r=r, c=c), h_reuse, (first, r, c), FUNCS, 'concrete first solve then symbolic %dx%d' % (r, c)))
    hs.append(Harness(pname('profit', n=2), h_profit, (2,), FUNCS, 'grades in [0,1], 2x2'))
    for r, c in [(2, 3), (3, 3)]:
        hs.append(Harness(pname('invariants', r=r, c=c), h_invariants, (r, c, 0), FUNCS, 'real entries; invariants after every step', validate=False))
    hs.append(Harness(pname('invariants01', r=4, c=4), h_invariants, (4, 4, 1), FUNCS, 'every 4x4 matrix over {0,1} (symbolic integers): optimal result and invariants after every step'))
    for n in (2, 3):
        hs.append(Harness(pname('step6', n=n), h_step6, (n,), ['Munkres.__step6', 'Munkres.__find_smallest'],
                          'arbitrary pre-state: n=%d, any cover pattern with an uncovered cell, any C>=0 without uncovered zeros' % n))
        hs.append(Harness(pname('step1', n=n), h_step1, (n,), ['Munkres.__step1'], 'arbitrary C>=0, n=%d' % n))
    hs.append(Harness(pname('step1', n=4), h_step1, (4,), ['Munkres.__step1'], 'arbitrary C>=0, n=4'))
    if tier == 'thorough':
        hs.append(Harness(pname('step6', n=4), h_step6, (4,), ['Munkres.__step6', 'Munkres.__find_smallest'], 'arbitrary pre-state n=4'))
        hs.append(Harness(pname('step6', n=5), h_step6, (5,), ['Munkres.__step6', 'Munkres.__find_smallest'], 'arbitrary pre-state n=5'))
        hs.append(Harness(pname('step1', n=5), h_step1, (5,), ['Munkres.__step1'], 'arbitrary C>=0, n=5'))
        hs.append(Harness(pname('munkres012', r=3, c=4), h_munkres_int, (3, 4, 2), FUNCS, 'every 3x4 matrix over {0,1,2}'))
        hs.append(Harness(pname('munkres012', r=4, c=3), h_munkres_int, (4, 3, 2), FUNCS, 'every 4x3 matrix over {0,1,2}'))
        hs.append(Harness(pname('profit', n=3), h_profit, (3,), FUNCS, 'grades in [0,1], 3x3'))
        for r, c, mp in [(2, 4, None), (4, 2, None), (3, 4, 120000), (4, 3, 120000), (2, 5, None), (5, 2, None), (4, 4, 150000)]:
            hs.append(Harness(pname('munkres', r=r, c=c), h_munkres, (r, c), FUNCS,
                              'all real entries in [0,1e6], shape %dx%d%s' % (r, c, '' if mp is None else ' (path budget %d)' % mp),
                              max_paths=mp))
    return hs


def h_munkres_int(E, r, c, hi):
    """entries are symbolic integers in [0, hi]: covers every matrix over {0..hi} of that shape"""
    from mitxgraders.helpers.munkres import Munkres
    m = [[E.int('m%d_%d' % (i, j), 0, hi) for j in range(c)] for i in range(r)]
    orig = [row[:] for row in m]
    res = Munkres().compute(m)
    _check_result(E, '', orig, m, res, r, c)
    return [list(p) for p in res]
