"""C17 - attempt-based credit: bounded, non-increasing schedules, applied to every positive grade."""
from fractions import Fraction

from symx import Harness, pname, sand, sor, simplies, siff, near_le, near_eq, snot, sif, smax, is_sym
from symx.stubs import make_table_grader, wellformed, shadow, sym_float, sym_Decimal

PROPERTY = 'C17'
EXPLANATION = ('The real LinearCredit / GeometricCredit / ReciprocalCredit.__call__ run on a symbolic attempt number (unbounded below the ramp and '
               'beyond it, every value on the ramp) and symbolic minimum_credit / factor; z3 decides value 1 at attempt 1, range [0,1], the '
               'minimum (up to the schedule\'s own 4-decimal rounding) and credit(n+1) <= credit(n). AbstractGrader.apply_attempt_based_credit '
               'runs inside real grader calls (single and list results) with symbolic base grades and decides: every positive grade is multiplied '
               'by the (4-decimal rounded) schedule value, zeros stay zero, ok is recomputed, attempts < 1 count as 1, the note appears exactly '
               'when some grade was reduced and the note is enabled, a missing attempt is a ConfigError.'
               ' With debug=True on list results the note must survive next to the debug log.')
ASSUMPTIONS = ['LinearCredit parameters decrease_credit_after, decrease_credit_steps in 1..6 (enumerated), minimum_credit any real in [0,1]',
               'minimum guarantee is stated up to the 4-decimal rounding the schedule itself applies (5e-5): round(min,4) can lie below min',
               'in apply_attempt_based_credit harnesses either the schedule value or the base grades come from a finite palette so that '
               'products stay linear']
BOUNDS = {'quick': 'LinearCredit after,steps in 1..6 x any minimum x any integer attempt; ReciprocalCredit any attempt (monotonicity for attempts <= 400); '
                   'GeometricCredit any factor in [0,1], attempts <= 8; application: single results and lists of 2-3 entries',
          'thorough': 'GeometricCredit attempts <= 12; application with lists of 3 full-range entries and more palette values'}
OUTSIDE = ['GeometricCredit beyond the attempt bound', 'IEEE rounding of products', 'percent rendering of symbolic credits (checked on concrete palette values)']
DEADLINE = {'quick': 600, 'thorough': 1500}
FUNCS = ['attemptcredit.LinearCredit.__call__', 'attemptcredit.GeometricCredit.__call__', 'attemptcredit.ReciprocalCredit.__call__',
         'AbstractGrader.apply_attempt_based_credit', 'AbstractGrader.__call__', 'AbstractGrader.grade_decimal_to_ok']
STUBS = ['baseclasses.float / baseclasses.Decimal shadows (pass symbolic values through; Decimal only renders the percentage)',
         'TableGrader', 'schedule objects built by the real constructor, then minimum_credit/factor replaced by a symbolic real']
R = Fraction(1, 20000)   # 5e-5


def _attempt_regions(E, after, dsteps):
    """symbolic attempt: region 0 = any integer <= after (incl. <=0), 1 = every value on the ramp and the two after it (forked),
    2 = any integer beyond"""
    region = E.fork_int('region', 0, 2)
    if region == 1:
        return E.fork_int('attempt', after + 1, after + dsteps + 1)
    a = E.int('attempt')
    if E.mode == 'sym':
        E.assume(a <= after if region == 0 else a >= after + dsteps + 2)
    return a


def h_linear(E, after, dsteps):
    from mitxgraders import LinearCredit
    sched = LinearCredit(decrease_credit_after=after, decrease_credit_steps=dsteps)
    m = E.real('minimum', 0, 1)
    sched.config['minimum_credit'] = m
    a = _attempt_regions(E, after, dsteps)
    c1 = sched(a)
    c2 = sched(a + 1)
    E.check('range', sand(near_le(0, c1), near_le(c1, 1)))
    E.check('at-least-minimum-up-to-rounding', near_le(m - R, c1))
    E.check('non-increasing', near_le(c2, c1))
    E.check('full-credit-up-to-decrease_credit_after', simplies(a <= after, near_eq(c1, 1)))
    E.check('minimum-reached-after-steps', simplies(a >= after + dsteps, sand(near_le(m - R, c1), near_le(c1, m + R))))
    one = sched(1)
    E.check('first-attempt-full', near_eq(one, 1))
    return 'ok'


def h_reciprocal(E, bounded):
    from mitxgraders import ReciprocalCredit
    sched = ReciprocalCredit()
    E.check('first-attempt-full', near_eq(sched(1), 1))
    if bounded:
        a = E.fork_int('attempt', 1, 400)
    else:
        a = E.int('attempt', 1, None)
    c1 = sched(a)
    E.check('range', sand(near_le(0, c1), near_le(c1, 1)))
    if bounded:
        E.check('non-increasing', near_le(sched(a + 1), c1))
    return 'ok'


def h_geometric(E, nmax):
    from mitxgraders import GeometricCredit
    sched = GeometricCredit()
    f = E.real('factor', 0, 1)
    sched.config['factor'] = f
    E.check('first-attempt-full', near_eq(sched(1), 1))
    a = E.fork_int('attempt', 1, nmax)
    c1 = sched(a)
    c2 = sched(a + 1)
    E.check('range', sand(near_le(0, c1), near_le(c1, 1)))
    E.check('non-increasing', near_le(c2, c1))
    return 'ok'


CREDITS = [0, 1, 0.5, 0.25, 0.99996, 0.33333, 0.99994, 1.0, 0.7]
NOTE = 'Maximum credit for attempt #'


def _round4(c):
    return round(float(c), 4)


def h_apply_single(E, credit_idx, msg_flag):
    """single-input result, symbolic base grade, schedule value from the palette, symbolic attempt (any integer)"""
    import mitxgraders.baseclasses as B
    T = {('e', 's'): E.real('g', 0, 1)}
    TG = make_table_grader(T, tag=False)
    c = CREDITS[credit_idx]
    seen = []

    def schedule(n):
        seen.append(n)
        return c
    g = TG(answers='e', attempt_based_credit=schedule, attempt_based_credit_msg=msg_flag)
    a = E.int('attempt')
    with shadow(B, float=sym_float):
        r = g(None, 's', attempt=a)
    s_ok, c_ok = wellformed(r)
    E.check('wellformed-ok-recomputed', sand(s_ok, c_ok))
    E.check('attempts-below-1-count-as-1', len(seen) == 1 and near_eq(seen[0], smax(a, 1)))
    rc = _round4(c)
    base = T[('e', 's')]
    E.check('grade-multiplied', near_eq(r['grade_decimal'], base * rc))
    E.check('zero-stays-zero', simplies(near_eq(base, 0), near_eq(r['grade_decimal'], 0)))
    reduced = sand(base > 0, rc != 1)
    E.check('note-iff-reduced-and-enabled', siff(NOTE in r['msg'], sand(msg_flag, reduced)))
    if NOTE in r['msg']:
        pct = {0: '0%', 0.5: '50%', 0.25: '25%', 0.3333: '33.3%', 0.7: '70%', 1.0: '100%'}.get(rc)
        E.check('note-percentage', pct is None or r['msg'].endswith(' is %s.' % pct))
    return [str(r['ok']), NOTE in r['msg']]


def h_apply_symcredit(E, grades_idx):
    """list result with base grades from a palette, symbolic schedule value c in [0,1]"""
    import mitxgraders.baseclasses as B
    from mitxgraders import ListGrader
    pal = [[0, 1], [0.5, 0], [1, 0.25], [0, 0]][grades_idx]
    T = {('e0', 's0'): pal[0], ('e1', 's1'): pal[1], ('e0', 's1'): 0, ('e1', 's0'): 0}
    TG = make_table_grader(T, tag=False)
    c = E.real('credit', 0, 1)
    g = ListGrader(answers=['e0', 'e1'], subgraders=TG(), ordered=True, attempt_based_credit=lambda n: c)
    with shadow(B, float=sym_float, Decimal=sym_Decimal):
        r = g(None, ['s0', 's1'], attempt=3)
    il = r['input_list']
    rc = round(c, 4)      # the code rounds the schedule value to 4 decimals; oracle bound below is independent of that witness
    for j in range(2):
        s_ok, c_ok = wellformed(il[j])
        E.check('wellformed-ok-recomputed', sand(s_ok, c_ok))
        lo = pal[j] * (c - R)
        hi = pal[j] * (c + R)
        E.check('grade-multiplied-up-to-rounding', sand(near_le(lo, il[j]['grade_decimal']), near_le(il[j]['grade_decimal'], hi)))
        E.check('zero-stays-zero', pal[j] != 0 or near_eq(il[j]['grade_decimal'], 0))
    reduced = sand(any(p > 0 for p in pal), snot(near_eq(rc, 1)))
    E.check('note-iff-reduced', siff(NOTE in r['overall_message'], reduced))
    E.check('no-note-in-entries', all(NOTE not in e['msg'] for e in il))
    return [str(e['ok']) for e in il] + [NOTE in r['overall_message']]


def _pct_text(credit):
    """documented rendering: the credit is rounded to 4 decimals; the note shows it as a percentage with a trailing '.0' dropped"""
    from decimal import Decimal
    d = (Decimal(repr(round(credit, 4))) * 100).normalize()
    txt = format(d, 'f')
    return txt


def h_note_percentage(E, sched):
    """the percentage in the note equals the (rounded) schedule value actually applied, for every attempt 1..120 of the built-in schedules - checked against
    the grade itself: the note shows the grade of a fully correct answer as a percentage rounded to one decimal"""
    from mitxgraders import StringGrader, LinearCredit, GeometricCredit, ReciprocalCredit
    import re as _re
    schedule = {'reciprocal': ReciprocalCredit(), 'geometric-0.9': GeometricCredit(factor=0.9), 'geometric-0.75': GeometricCredit(factor=0.75),
                'linear-20': LinearCredit(decrease_credit_after=1, decrease_credit_steps=20, minimum_credit=0.05)}[sched]
    g = StringGrader(answers='cat', attempt_based_credit=schedule)
    lo = E.fork_int('block', 0, 11)
    for attempt in range(10 * lo + 1, 10 * lo + 11):
        r = g(None, 'cat', attempt=attempt)
        m_ = _re.search(r'Maximum credit for attempt #(\d+) is ([0-9.]+)%\.', r['msg'])
        if r['grade_decimal'] == 1:
            E.check('note-percentage-is-the-applied-credit', m_ is None)
        else:
            E.check('note-percentage-is-the-applied-credit', m_ is not None and int(m_.group(1)) == attempt
                    and abs(float(m_.group(2)) - r['grade_decimal'] * 100) <= 0.05 + 1e-9 and not m_.group(2).endswith('.0')
                    and len(m_.group(2).partition('.')[2]) <= 1)       # shown with one decimal, a trailing .0 dropped
    return 'ok'


def h_note_attempt(E, kind):
    """the note names the attempt the credit was computed for: attempts below 1 count as attempt 1 in the note too (author-defined schedule that
    already reduces the first attempt, so that the note appears)"""
    import mitxgraders.baseclasses as B
    from mitxgraders import ListGrader
    a = E.fork_int('attempt', -3, 4)
    T = {(e, s_): E.real('g_%s_%s' % (e, s_), 0, 1, lo_open=True) for e in ('e0', 'e1') for s_ in ('s0', 's1')}
    TG = make_table_grader(T)
    with shadow(B, float=sym_float):
        if kind == 'single':
            r = TG(answers='e0', attempt_based_credit=lambda n: 0.5)(None, 's0', attempt=a)
            text = r['msg']
        else:
            r = ListGrader(answers=['e0', 'e1'], subgraders=TG(), ordered=True, attempt_based_credit=lambda n: 0.5)(None, ['s0', 's1'], attempt=a)
            text = r['overall_message']
    E.check('note-names-the-effective-attempt', ('Maximum credit for attempt #%d is 50%%.' % max(a, 1)) in text)
    return 'ok'


def h_apply_list(E, credit_idx, n, ordered, debug=False):
    """list result, symbolic base grades, palette schedule value"""
    import mitxgraders.baseclasses as B
    from mitxgraders import ListGrader
    exps = ['e%d' % i for i in range(n)]
    stus = ['s%d' % i for i in range(n)]
    T = {(e, s): E.real('g_%s_%s' % (e, s), 0, 1) for e in exps for s in stus}
    TG = make_table_grader(T)
    c = CREDITS[credit_idx]
    g = ListGrader(answers=list(exps), subgraders=TG(), ordered=ordered, attempt_based_credit=lambda k: c, debug=debug)
    a = E.int('attempt', -2, 5)
    with shadow(B, float=sym_float):
        r = g(None, list(stus), attempt=a)
    il = r['input_list']
    rc = _round4(c)
    reduced_any = False
    for j in range(n):
        tag = tuple(il[j]['msg'].split('/'))
        s_ok, c_ok = wellformed(il[j])
        E.check('wellformed-ok-recomputed', sand(s_ok, c_ok))
        if tag not in T:
            E.check('tagged', False)
            return 'bad'
        E.check('grade-multiplied', near_eq(il[j]['grade_decimal'], T[tag] * rc))
        reduced_any = sor(reduced_any, sand(T[tag] > 0, rc != 1))
    E.check('note-iff-reduced', siff(NOTE in r['overall_message'], reduced_any))
    return [str(e['ok']) for e in il]


def h_missing_attempt(E, kind):
    from mitxgraders import ListGrader, LinearCredit
    from mitxgraders.exceptions import ConfigError
    T = {(e, s): E.real('g_%s_%s' % (e, s), 0, 1) for e in ('e0', 'e1') for s in ('s0', 's1')}
    TG = make_table_grader(T)
    if kind == 'single':
        g = TG(answers='e0', attempt_based_credit=LinearCredit())
        call = lambda: g(None, 's0')   # noqa
    elif kind == 'single-inferred-answer':
        g = TG(attempt_based_credit=LinearCredit())
        call = lambda: g('e0', 's0')   # noqa  (the answer arrives through the call's expect argument)
    elif kind == 'string-inferred-answer':
        from mitxgraders import StringGrader
        g = StringGrader(attempt_based_credit=LinearCredit())
        call = lambda: g('cat', 'cat')   # noqa
    elif kind == 'after-a-call-with-attempt':
        g = TG(answers='e0', attempt_based_credit=LinearCredit())
        g(None, 's0', attempt=3)
        call = lambda: g(None, 's0')   # noqa  (the attempt of an earlier call must not be remembered)
    elif kind == 'list-after-a-call-with-attempt':
        g = ListGrader(answers=['e0', 'e1'], subgraders=TG(), attempt_based_credit=LinearCredit())
        g(None, ['s0', 's1'], attempt=1)
        call = lambda: g(None, ['s0', 's1'])   # noqa
    elif kind == 'attempt-None':
        g = TG(answers='e0', attempt_based_credit=LinearCredit())
        call = lambda: g(None, 's0', attempt=None)   # noqa
    else:
        g = ListGrader(answers=['e0', 'e1'], subgraders=TG(), attempt_based_credit=LinearCredit())
        call = lambda: g(None, ['s0', 's1'])   # noqa
    try:
        call()
        E.check('missing-attempt-is-ConfigError', False)
    except ConfigError as e:
        E.check('missing-attempt-is-ConfigError', 'Attempt number not passed' in str(e))
    return 'raised'


def h_real_schedule(E, sched_name, attempt):
    """real schedule objects inside a real grader call, symbolic base grade"""
    import mitxgraders.baseclasses as B
    from mitxgraders import LinearCredit, GeometricCredit, ReciprocalCredit
    sched = {'linear': LinearCredit(decrease_credit_after=2, decrease_credit_steps=3, minimum_credit=0.1),
             'geometric': GeometricCredit(factor=0.5), 'reciprocal': ReciprocalCredit()}[sched_name]
    T = {('e', 's'): E.real('g', 0, 1)}
    TG = make_table_grader(T, tag=False)
    g = TG(answers='e', attempt_based_credit=sched)
    with shadow(B, float=sym_float):
        r = g(None, 's', attempt=attempt)
    want = {'linear': {1: 1, 2: 1, 3: 0.7, 4: 0.4, 5: 0.1, 9: 0.1, 0: 1, -4: 1},
            'geometric': {1: 1, 2: 0.5, 3: 0.25, 4: 0.125, 5: 0.0625, 9: 0.0039, 0: 1, -4: 1},
            'reciprocal': {1: 1, 2: 0.5, 3: 0.3333, 4: 0.25, 5: 0.2, 9: 0.1111, 0: 1, -4: 1}}[sched_name][attempt]
    s_ok, c_ok = wellformed(r)
    E.check('wellformed-ok-recomputed', sand(s_ok, c_ok))
    E.check('grade-multiplied-by-schedule', near_eq(r['grade_decimal'], T[('e', 's')] * want))
    E.check('note-iff-reduced', siff(NOTE in r['msg'], sand(T[('e', 's')] > 0, want != 1)))
    return [str(r['ok']), NOTE in r['msg']]


def harnesses(tier):
    hs = []

    def add(fn, base, params, bounds, **kw):
        hs.append(Harness(pname(base, **params), fn, tuple(params.values()), FUNCS, bounds, STUBS, **kw))
    for after in range(1, 7):
        for dsteps in range(1, 7):
            add(h_linear, 'linear', dict(after=after, steps=dsteps), 'any minimum in [0,1], any integer attempt')
    add(h_reciprocal, 'reciprocal', dict(bounded=False), 'any attempt >= 1 (range)')
    add(h_reciprocal, 'reciprocal', dict(bounded=True), 'attempts 1..400 (monotone)')
    add(h_geometric, 'geometric', dict(nmax=8 if tier == 'quick' else 12), 'any factor in [0,1]')
    for ci in range(len(CREDITS)):
        for flag in (True, False):
            add(h_apply_single, 'apply_single', dict(credit=ci, msg=flag), 'symbolic grade in [0,1], any integer attempt, schedule value %r' % CREDITS[ci])
    for gi in range(4):
        add(h_apply_symcredit, 'apply_symcredit', dict(grades=gi), 'symbolic schedule value in [0,1], palette grades')
    for ci in (0, 2, 4, 6):
        add(h_apply_list, 'apply_list', dict(credit=ci, n=2, ordered=False), 'symbolic grades in [0,1], attempt in [-2,5]')
    add(h_apply_list, 'apply_list', dict(credit=2, n=3, ordered=True), 'symbolic grades in [0,1], attempt in [-2,5]')
    for ci in (1, 2):
        add(h_apply_list, 'apply_list', dict(credit=ci, n=2, ordered=True, debug=True), 'debug log switched on: the note survives next to the log')
    for sched in ('reciprocal', 'geometric-0.9', 'geometric-0.75', 'linear-20'):
        add(h_note_percentage, 'note_percentage', dict(schedule=sched), 'attempts 1..120', validate=False)
    for kind in ('single', 'list'):
        add(h_note_attempt, 'note_attempt', dict(kind=kind), 'attempt -3..4, schedule value 0.5 at every attempt, grades in (0,1]')
    for kind in ('single', 'list', 'single-inferred-answer', 'string-inferred-answer', 'attempt-None', 'after-a-call-with-attempt', 'list-after-a-call-with-attempt'):
        add(h_missing_attempt, 'missing_attempt', dict(kind=kind), 'no attempt passed')
    for sn in ('linear', 'geometric', 'reciprocal'):
        for att in (1, 2, 3, 4, 5, 9, 0, -4):
            add(h_real_schedule, 'real_schedule', dict(sched=sn, attempt=att), 'symbolic grade in [0,1]')
    if tier == 'thorough':
        for ci in (1, 3, 5, 8):
            add(h_apply_list, 'apply_list', dict(credit=ci, n=3, ordered=False), 'symbolic grades in [0,1], attempt in [-2,5]', max_paths=100000)
    return hs
