#!/bin/bash
# Build /verif/.venv offline: python from /venv (so the repo's own deps are visible through a .pth),
# plus z3-solver (and crosshair-tool as a second opinion) from the local wheelhouse.
set -e
cd "$(dirname "$0")"
if [ -x .venv/bin/python ] && .venv/bin/python -c 'import z3, numpy, pyparsing' 2>/dev/null; then
  exit 0
fi
rm -rf .venv
/venv/bin/python -m venv .venv
SP=$(.venv/bin/python -c 'import sysconfig; print(sysconfig.get_paths()["purelib"])')
printf "import site; site.addsitedir('/venv/lib/python3.12/site-packages')\n" > "$SP/verif_overlay.pth"
PIP_NO_INDEX=1 .venv/bin/python -m pip install -q --no-index --find-links /opt/veriftools/wheels z3-solver >/dev/null
PIP_NO_INDEX=1 .venv/bin/python -m pip install -q --no-index --find-links /opt/veriftools/wheels crosshair-tool >/dev/null 2>&1 || echo "setup: crosshair-tool not installed (optional)"
.venv/bin/python -c 'import z3, numpy, pyparsing; print("setup ok: z3", z3.get_version_string())'
