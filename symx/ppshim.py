"""Run the REAL pyparsing combinators, the repository's grammar object and its parse actions on symbolic strings.

pyparsing's combinators (And, MatchFirst, Opt, ZeroOrMore, Forward, Group, Suppress, NotAny, FollowedBy, DelimitedList), Literal,
StringEnd and ParseResults work unmodified on a SymStr.  Four LEAF routines look characters up in C-level sets / call str methods and get
sym-aware replacements implementing the same algorithm (only taken when the input is a SymStr; str input goes to the original):

  ParserElement.preParse      whitespace skipping            (`instring[loc] in white_chars`)
  Word.parseImpl              per instance; pyparsing's own non-regex implementation with set lookups replaced by SymChar.in_set
  CaselessLiteral.parseImpl   single-character matches only  (`instring[loc].upper() == 'E'` -> membership in {c : c.upper() == 'E'})
  Combine.postParse           `"".join(...)` of the matched pieces

selftest(): for a corpus of concrete strings, parsing the string as a SymStr of CONSTANT characters must give the same outcome
(tree, reported names, error class) as parsing the plain str with unmodified pyparsing.
"""
import contextlib
import types

import pyparsing as pp
from pyparsing import ParseException, ParseResults

from .core import Unsupported
from .text import SymStr, SymChar, K

_UPPER_PREIMAGE = {}


def upper_preimage(ch):
    if ch not in _UPPER_PREIMAGE:
        _UPPER_PREIMAGE[ch] = ''.join(chr(c) for c in range(0x110000) if not (0xD800 <= c <= 0xDFFF) and chr(c).upper() == ch)
    return _UPPER_PREIMAGE[ch]


_orig_pre = pp.ParserElement.preParse
_orig_comb = pp.Combine.postParse
_orig_caseless = pp.CaselessLiteral.parseImpl


def _preParse(self, instring, loc):
    if not isinstance(instring, SymStr):
        return _orig_pre(self, instring, loc)
    if self.ignoreExprs:
        loc = self._skipIgnorables(instring, loc)
    if self.skipWhitespace:
        n = len(instring)
        wc = ''.join(sorted(self.whiteChars))
        while loc < n and bool(instring[loc].in_set(wc)):
            loc += 1
    return loc


def _word_parseImpl(self, instring, loc, do_actions=True):
    if not isinstance(instring, SymStr):
        return self.__dict__['_symx_orig_impl'](instring, loc, do_actions)
    init = self.__dict__.setdefault('_symx_init', ''.join(sorted(self.initChars)))
    body = self.__dict__.setdefault('_symx_body', ''.join(sorted(self.bodyChars)))
    if loc >= len(instring) or not bool(instring[loc].in_set(init)):
        raise ParseException(instring, loc, self.errmsg, self)
    start = loc
    loc += 1
    n = len(instring)
    maxloc = min(start + self.maxLen, n)
    while loc < maxloc and bool(instring[loc].in_set(body)):
        loc += 1
    throw = False
    if loc - start < self.minLen:
        throw = True
    elif self.maxSpecified and loc < n and bool(instring[loc].in_set(body)):
        throw = True
    elif self.asKeyword and ((start > 0 and bool(instring[start - 1].in_set(body))) or (loc < n and bool(instring[loc].in_set(body)))):
        throw = True
    if throw:
        raise ParseException(instring, loc, self.errmsg, self)
    return loc, instring[start:loc]


def _caseless_parseImpl(self, instring, loc, do_actions=True):
    if not isinstance(instring, SymStr):
        return _orig_caseless(self, instring, loc, do_actions)
    if self.matchLen != 1:
        raise Unsupported('CaselessLiteral of length > 1 on a symbolic string')
    if loc < len(instring) and bool(instring[loc].in_set(upper_preimage(self.match))):
        return loc + 1, self.returnString
    raise ParseException(instring, loc, self.errmsg, self)


def _flat(tokenlist, sep):
    out = []
    for item in tokenlist._toklist:
        if out and sep:
            out.append(sep)
        if isinstance(item, ParseResults):
            out += _flat(item, sep)
        else:
            out.append(item)
    return out


def _combine_postParse(self, instring, loc, tokenlist):
    toks = _flat(tokenlist, self.joinString)
    if not any(isinstance(t, (SymStr, SymChar)) for t in toks):
        return _orig_comb(self, instring, loc, tokenlist)
    joined = SymStr([])
    for t in toks:
        joined = joined + t
    retToks = tokenlist.copy()
    del retToks[:]
    retToks += ParseResults([joined], modal=self.modalResults)
    if self.resultsName and retToks.haskeys():
        return [retToks]
    return retToks


def _walk(e, seen, out):
    if id(e) in seen:
        return
    seen.add(id(e))
    out.append(e)
    for c in getattr(e, 'exprs', None) or []:
        _walk(c, seen, out)
    if getattr(e, 'expr', None) is not None:
        _walk(e.expr, seen, out)


@contextlib.contextmanager
def installed(*grammars):
    """install the leaf shims (class level + per Word instance of the given grammars) for the duration of the block"""
    elems = []
    seen = set()
    for g in grammars:
        _walk(g, seen, elems)
    words = [e for e in elems if isinstance(e, pp.Word)]
    saved = []
    pp.ParserElement.preParse = _preParse
    pp.Combine.postParse = _combine_postParse
    pp.CaselessLiteral.parseImpl = _caseless_parseImpl
    for w in words:
        saved.append((w, w.__dict__.get('parseImpl')))
        w.__dict__['_symx_orig_impl'] = w.parseImpl
        w.parseImpl = types.MethodType(_word_parseImpl, w)
    try:
        yield len(elems)
    finally:
        pp.ParserElement.preParse = _orig_pre
        pp.Combine.postParse = _orig_comb
        pp.CaselessLiteral.parseImpl = _orig_caseless
        for w, old in saved:
            if old is None:
                w.__dict__.pop('parseImpl', None)
            else:
                w.__dict__['parseImpl'] = old
            w.__dict__.pop('_symx_orig_impl', None)


def const_symstr(s):
    return SymStr([K(c) for c in s])


def tree_repr(x):
    """structure of a parse tree with SymStr leaves rendered through their constant characters"""
    if isinstance(x, ParseResults):
        return (x.getName(), [tree_repr(c) for c in x])
    if isinstance(x, SymStr):
        return x.concrete()
    if isinstance(x, SymChar):
        return SymStr([x]).concrete()
    return x


SELFTEST_STRINGS = ['1+2', 'sin(x)^-2', 'a||b*c', '2x', '[1,2]*3', 'f(x,y)', "x_{1}^{2}'", '1 + ', '(]', 'a b', '1e3', '1E-3k', '.5%', 'a_b1', "T_{-1}'", '-x^-y',
                    'a\t+\nb', '—a', '((a))', '[[1,2],[3,4]]', 'a^b^c', '1.', '2.5e+2', 'x y(', 'é+1', 'a+*b', '', 'f()', 'x_', 'a__b', "q''", '3m', '1e', 'a_{b}_{c}']


def selftest():
    from .core import Engine, set_engine
    import mitxgraders.helpers.calc.expressions as X
    from mitxgraders.helpers.calc.exceptions import CalcError
    P = X.MathParser()

    def outcome(s):
        """the grammar object + parse actions directly (MathParser.parse / raw_parse are code under test, not part of the shim contract)"""
        from pyparsing import ParseException
        P.reset_storage()
        try:
            src = s.replace(' ', '')
            tree = P.grammar.parseString(src)[0]
            names = lambda st: sorted((n.concrete() if isinstance(n, SymStr) else n) for n in st)   # noqa
            out = ('ok', tree_repr(tree), names(P.variables_used), names(P.functions_used), names(P.suffixes_used))
        except ParseException:
            out = ('err', 'ParseException')
        P.reset_storage()
        return out
    plain = {s: outcome(s) for s in SELFTEST_STRINGS}
    E = Engine(mode='sym')
    set_engine(E)
    try:
        with installed(P.grammar):
            for s in SELFTEST_STRINGS:
                got = outcome(const_symstr(s))
                if got != plain[s]:
                    raise AssertionError('pyparsing shim self-test: %r parses differently as a symbolic string: %r vs %r' % (s, got, plain[s]))
        # and the shims are really gone afterwards
        if outcome('1+2') != plain['1+2'] or pp.ParserElement.preParse is not _orig_pre:
            raise AssertionError('pyparsing shim self-test: shims not removed')
    finally:
        set_engine(None)
    return True
