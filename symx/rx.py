"""Regular expressions for the solver.

1. `match_language(pattern)` / `fullmatch_language(pattern)`: translate CPython's OWN parse tree of a pattern (re._parser) into a z3 regular
   expression denoting {s : re.match(pattern, s) is not None} resp. the full-match language - used for LANGUAGE questions without any length bound.
2. `sym_match(pattern, chars)`: for a symbolic string of concrete length (list of z3 Int code points) the formula "re.match(pattern, s) is not None".
3. `ReShim`: drop-in for the `re` module inside a repository module's namespace: SymStr arguments go through (2), everything else to `re`.

Supported subset: LITERAL, NOT_LITERAL, ANY, IN (ranges, \\d \\s \\w categories, negation), BRANCH, SUBPATTERN (plain / non-capturing), MAX_REPEAT,
MIN_REPEAT, AT_BEGINNING (head position), AT_END / AT_END_STRING (anywhere a continuation is known).  Anything else raises Unsupported.
Both translations are validated against `re` on concrete strings (selftest()).
"""
import re as _re
import re._parser as sre
import re._constants as C

import z3

from .core import Unsupported, SymBool, ENG
from .text import SymStr, SymChar, K, WS, member, ranges, chars_to_ranges

S = z3.StringSort()
RS = z3.ReSort(S)
EPS = z3.Re(z3.StringVal(''))
ANYCHAR = z3.AllChar(RS)
SIGMA_STAR = z3.Full(RS)
MAXREP = C.MAXREPEAT


def _parse(pattern, flags=0):
    if flags & ~(_re.UNICODE):
        raise Unsupported('regex flags %r' % flags)
    return sre.parse(pattern, flags)


# ------------------------------------------------------------------------------------------------ character classes
def _class_ranges(items):
    """(negated, list of (lo,hi)) for an IN node's items"""
    neg = False
    rs = []
    for op, av in items:
        if op is C.NEGATE:
            neg = True
        elif op is C.LITERAL:
            rs.append((av, av))
        elif op is C.RANGE:
            rs.append((av[0], av[1]))
        elif op is C.CATEGORY:
            if av is C.CATEGORY_DIGIT:
                rs += ranges('decimal')         # \\d of a str pattern = Unicode category Nd = str.isdecimal
            elif av is C.CATEGORY_SPACE:
                rs += chars_to_ranges(chr(w) for w in WS)
            elif av is C.CATEGORY_WORD:
                rs += ranges('alnum') + [(95, 95)]
            else:
                raise Unsupported('regex category %r' % av)
        else:
            raise Unsupported('regex class item %r' % op)
    return neg, rs


def _re_of_ranges(neg, rs):
    parts = [z3.Range(chr(a), chr(min(b, 0x2FFFF))) for a, b in rs if a <= 0x2FFFF]
    r = z3.Union(parts) if len(parts) > 1 else (parts[0] if parts else z3.Empty(RS))
    if neg:
        return z3.Intersect(ANYCHAR, z3.Complement(r))
    return r


# ------------------------------------------------------------------------------------------------ 1. languages
def _lang_seq(items, tail, head):
    """language of the sequence `items` followed by `tail` (a z3 Re); `head`: the sequence starts at position 0"""
    items = list(items)
    res = tail
    for idx in range(len(items) - 1, -1, -1):
        res = _lang_item(items[idx], res, head and idx == 0)
    return res


def _plain(node_items):
    """z3 Re of a sub-pattern that contains no anchors (usable under repetition)"""
    return _lang_seq(node_items, EPS, False)


def _has_anchor(items):
    for op, av in items:
        if op is C.AT:
            return True
        if op is C.SUBPATTERN and _has_anchor(av[3]):
            return True
        if op is C.BRANCH and any(_has_anchor(b) for b in av[1]):
            return True
        if op in (C.MAX_REPEAT, C.MIN_REPEAT) and _has_anchor(av[2]):
            return True
    return False


def _lang_item(item, tail, head):
    op, av = item
    if op is C.LITERAL:
        return z3.Concat(z3.Re(z3.StringVal(chr(av))), tail)
    if op is C.NOT_LITERAL:
        return z3.Concat(z3.Intersect(ANYCHAR, z3.Complement(z3.Re(z3.StringVal(chr(av))))), tail)
    if op is C.ANY:
        return z3.Concat(z3.Intersect(ANYCHAR, z3.Complement(z3.Re(z3.StringVal('\n')))), tail)
    if op is C.IN:
        return z3.Concat(_re_of_ranges(*_class_ranges(av)), tail)
    if op is C.BRANCH:
        return z3.Union([_lang_seq(b, tail, head) for b in av[1]]) if len(av[1]) > 1 else _lang_seq(av[1][0], tail, head)
    if op is C.SUBPATTERN:
        if av[1] or av[2]:
            raise Unsupported('inline regex flags')
        return _lang_seq(av[3], tail, head)
    if op in (C.MAX_REPEAT, C.MIN_REPEAT):
        lo, hi, body = av
        if _has_anchor(body):
            raise Unsupported('anchor under repetition')
        r = _plain(body)
        if hi is MAXREP:
            rep = z3.Concat(z3.Loop(r, lo, lo), z3.Star(r)) if lo > 0 else z3.Star(r)
        else:
            rep = z3.Loop(r, lo, hi)
        return z3.Concat(rep, tail)
    if op is C.AT:
        if av in (C.AT_BEGINNING, C.AT_BEGINNING_STRING):
            if not head:
                raise Unsupported('^ not in head position')
            return tail
        if av is C.AT_END:
            return z3.Intersect(tail, z3.Union(EPS, z3.Re(z3.StringVal('\n'))))
        if av is C.AT_END_STRING:
            return z3.Intersect(tail, EPS)
        raise Unsupported('regex anchor %r' % av)
    raise Unsupported('regex operator %r' % op)


def match_language(pattern, flags=0):
    """{ s : re.match(pattern, s) is not None }"""
    return _lang_seq(_parse(pattern, flags), SIGMA_STAR, True)


def fullmatch_language(pattern, flags=0):
    """{ s : re.fullmatch(pattern, s) is not None }"""
    return _lang_seq(_parse(pattern, flags), EPS, True)


def language_difference(r1, r2, timeout_ms=20000):
    """('equal', None) | ('differ', witness string) | ('unknown', None)"""
    s = z3.String('w')
    sol = z3.Solver()
    sol.set('timeout', timeout_ms)
    sol.add(z3.InRe(s, r1) != z3.InRe(s, r2))
    r = sol.check()
    if r == z3.unsat:
        return 'equal', None
    if r == z3.sat:
        w = sol.model().eval(s, model_completion=True)
        return 'differ', w.as_string()
    return 'unknown', None


def z3_unescape(w):
    """z3 prints non-printable characters as \\u{..}"""
    return _re.sub(r'\\u\{([0-9a-fA-F]+)\}', lambda m: chr(int(m.group(1), 16)), w)


# ------------------------------------------------------------------------------------------------ 2. symbolic sequences
class _SeqMatcher:
    def __init__(self, chars):
        self.ch = chars          # list of z3 Int terms
        self.n = len(chars)
        self.memo = {}

    def ends(self, items, i, head):
        """dict end position -> z3 Bool: `items` (a sequence) matches chars[i:end]"""
        items = list(items)
        cur = {i: z3.BoolVal(True)}
        for idx, it in enumerate(items):
            nxt = {}
            for pos, cond in cur.items():
                for e, c2 in self.item_ends(it, pos, head and idx == 0).items():
                    f = z3.And(cond, c2)
                    nxt[e] = z3.Or(nxt[e], f) if e in nxt else f
            cur = nxt
            if not cur:
                break
        return cur

    def char_pred(self, op, av, c):
        if op is C.LITERAL:
            return c == av
        if op is C.NOT_LITERAL:
            return c != av
        if op is C.ANY:
            return c != 10
        neg, rs = _class_ranges(av)
        key = ('rx', neg, tuple(rs))
        m = member(key, c, lambda: rs)
        return z3.Not(m) if neg else m

    def item_ends(self, item, i, head):
        op, av = item
        key = (id(item), i, head)
        if key in self.memo:
            return self.memo[key]
        if op in (C.LITERAL, C.NOT_LITERAL, C.ANY, C.IN):
            res = {i + 1: self.char_pred(op, av, self.ch[i])} if i < self.n else {}
        elif op is C.BRANCH:
            res = {}
            for b in av[1]:
                for e, c in self.ends(b, i, head).items():
                    res[e] = z3.Or(res[e], c) if e in res else c
        elif op is C.SUBPATTERN:
            if av[1] or av[2]:
                raise Unsupported('inline regex flags')
            res = self.ends(av[3], i, head)
        elif op in (C.MAX_REPEAT, C.MIN_REPEAT):
            lo, hi, body = av
            res = {}
            cur = {i: z3.BoolVal(True)}
            k = 0
            if lo == 0:
                res[i] = z3.BoolVal(True)
            while cur and (hi is MAXREP or k < hi) and k <= self.n + lo:
                nxt = {}
                for pos, cond in cur.items():
                    for e, c2 in self.ends(body, pos, False).items():
                        if e == pos and k >= lo:
                            continue          # empty iteration adds nothing
                        f = z3.And(cond, c2)
                        nxt[e] = z3.Or(nxt[e], f) if e in nxt else f
                k += 1
                cur = nxt
                if k >= lo:
                    for e, c in cur.items():
                        res[e] = z3.Or(res[e], c) if e in res else c
        elif op is C.AT:
            if av in (C.AT_BEGINNING, C.AT_BEGINNING_STRING):
                res = {i: z3.BoolVal(i == 0)}
            elif av is C.AT_END:
                if i == self.n:
                    res = {i: z3.BoolVal(True)}
                elif i == self.n - 1:
                    res = {i: self.ch[i] == 10}
                else:
                    res = {}
            elif av is C.AT_END_STRING:
                res = {i: z3.BoolVal(i == self.n)}
            else:
                raise Unsupported('regex anchor %r' % av)
        else:
            raise Unsupported('regex operator %r' % op)
        self.memo[key] = res
        return res


def sym_match(pattern, chars, flags=0, full=False):
    """z3 Bool: re.match(pattern, s) is not None (full=True: re.fullmatch) for s = the given code-point terms"""
    tree = _parse(pattern, flags)
    m = _SeqMatcher(list(chars))
    ends = m.ends(tree, 0, True)
    if full:
        return ends.get(len(m.ch), z3.BoolVal(False))
    return z3.Or(list(ends.values())) if ends else z3.BoolVal(False)


# ------------------------------------------------------------------------------------------------ 3. re shim
class _SymMatchObject:
    """truthy stand-in for a match object (only its existence is used by the code paths that receive symbolic strings)"""

    def groups(self):
        raise Unsupported('groups() of a match on a symbolic string')

    group = groups


class ShimPattern:
    def __init__(self, pattern, flags=0):
        self.pattern = pattern
        self.flags = flags
        self._c = _re.compile(pattern, flags)

    def match(self, s):
        if isinstance(s, (SymStr, SymChar)):
            return ReShim.match(ReShim, self.pattern, s, self.flags)
        return self._c.match(s)

    def __getattr__(self, n):
        return getattr(self._c, n)


class ReShim:
    """stands in for the `re` module in one repository module's namespace"""

    def __getattr__(self, n):
        return getattr(_re, n)

    @staticmethod
    def _chars(s):
        return [c.c for c in (s.ch if isinstance(s, SymStr) else [s])]

    def match(self, pattern, s, flags=0):
        if isinstance(pattern, ShimPattern):
            pattern, flags = pattern.pattern, pattern.flags
        if not isinstance(s, (SymStr, SymChar)):
            return _re.match(pattern, s, flags)
        cond = sym_match(pattern, ReShim._chars(s), flags)
        return _SymMatchObject() if ENG().decide(cond) else None

    def fullmatch(self, pattern, s, flags=0):
        if not isinstance(s, (SymStr, SymChar)):
            return _re.fullmatch(pattern, s, flags)
        cond = sym_match(pattern, ReShim._chars(s), flags, full=True)
        return _SymMatchObject() if ENG().decide(cond) else None

    def compile(self, pattern, flags=0):
        return ShimPattern(pattern, flags)

    def sub(self, pattern, repl, s, count=0, flags=0):
        if not isinstance(s, SymStr):
            return _re.sub(pattern, repl, s, count, flags)
        if not isinstance(repl, str) or '\\' in repl or count != 0:
            raise Unsupported('re.sub with a non-constant replacement on a symbolic string')
        tree = _parse(pattern, flags)
        # fast path (same semantics): one literal repeated one-or-more times, e.g. r' +'
        if len(tree) == 1 and tree[0][0] is C.MAX_REPEAT and tree[0][1][0] == 1 and tree[0][1][1] is MAXREP and len(tree[0][1][2]) == 1 \
                and tree[0][1][2][0][0] is C.LITERAL:
            lit = chr(tree[0][1][2][0][1])
            out, run = [], False
            for c in s.ch:
                if bool(c == lit):
                    if not run:
                        out += [K(x) for x in repl]
                    run = True
                else:
                    out.append(c)
                    run = False
            return SymStr(out)
        chars = [c.c for c in s.ch]
        om = _OrderedMatcher(chars)
        out = []
        i, n = 0, len(chars)
        while i <= n:
            end = None
            for cond, e in om.seq(list(tree), i, i == 0):
                if ENG().decide(z3.simplify(cond)):
                    end = e
                    break
            if end is None:
                if i < n:
                    out.append(s.ch[i])
                i += 1
            elif end == i:                      # empty match: replacement, then the character is copied
                out += [K(x) for x in repl]
                if i < n:
                    out.append(s.ch[i])
                i += 1
            else:
                out += [K(x) for x in repl]
                i = end                          # (an empty match right after a non-empty one is allowed, as in Python >= 3.7)
        return SymStr(out)


class _OrderedMatcher(_SeqMatcher):
    """candidate matches in the PRIORITY ORDER of Python's backtracking matcher: generator of (condition, end).
    The first candidate whose condition holds is the match re.sub / re.match would report."""

    def seq(self, items, i, head):
        if not items:
            yield z3.BoolVal(True), i
            return
        first, rest = items[0], items[1:]
        for c1, e1 in self.item(first, i, head):
            for c2, e2 in self.seq(rest, e1, False):
                yield z3.And(c1, c2), e2

    def item(self, item, i, head):
        op, av = item
        if op in (C.LITERAL, C.NOT_LITERAL, C.ANY, C.IN):
            if i < self.n:
                yield self.char_pred(op, av, self.ch[i]), i + 1
        elif op is C.BRANCH:
            for b in av[1]:
                yield from self.seq(list(b), i, head)
        elif op is C.SUBPATTERN:
            if av[1] or av[2]:
                raise Unsupported('inline regex flags')
            yield from self.seq(list(av[3]), i, head)
        elif op in (C.MAX_REPEAT, C.MIN_REPEAT):
            lo, hi, body = av
            hi = self.n - i + 1 if hi is MAXREP else hi
            yield from self.rep(list(body), i, lo, hi, op is C.MAX_REPEAT, 0)
        elif op is C.AT:
            ends = self.item_ends(item, i, head)
            for e, c in ends.items():
                yield c, e
        else:
            raise Unsupported('regex operator %r' % op)

    def rep(self, body, i, lo, hi, greedy, k):
        """k iterations done so far, currently at i"""
        can_stop = k >= lo
        can_more = k < hi
        if greedy:
            if can_more:
                for c1, e1 in self.seq(body, i, False):
                    if e1 == i:
                        continue
                    for c2, e2 in self.rep(body, e1, lo, hi, greedy, k + 1):
                        yield z3.And(c1, c2), e2
            if can_stop:
                yield z3.BoolVal(True), i
        else:
            if can_stop:
                yield z3.BoolVal(True), i
            if can_more:
                for c1, e1 in self.seq(body, i, False):
                    if e1 == i:
                        continue
                    for c2, e2 in self.rep(body, e1, lo, hi, greedy, k + 1):
                        yield z3.And(c1, c2), e2


# ------------------------------------------------------------------------------------------------ self test
SELFTEST_PATTERNS = [r'cat|dog$', r'(?:cat|dog)$', r'cat$', r'[a-c]+\d*$', r'^x?y{2,3}', r'a.b', r'[^ab]c', r' +', r'\w+\s\d$', r'(ab)*c$',
                     r'^((b|Cat)_{(?:[-]?[1-9]\d*|0)})$', r'a|bc|d$', r'a*$', r'(a|b)(c|d)$', r'x\Z']


def selftest(seed=5, per_pattern=25, fast=True):
    import random
    rnd = random.Random(seed)
    alpha = 'abcdxyCt_{}-0123 \n'
    sol = z3.Solver()
    for pat in SELFTEST_PATTERNS:
        if fast and '\\w' in pat:
            continue          # \\w expands to ~660 code-point ranges: exercised in the extended self-test only
        lang = match_language(pat)
        full = fullmatch_language(pat)
        words = [''.join(rnd.choice(alpha) for _ in range(rnd.randint(0, 6))) for _ in range(per_pattern)]
        words += ['cat', 'dog', 'catfish', 'cat\n', 'dog\n', 'b_{12}', 'Cat_{-3}', 'b_{0}', 'b_{03}', 'yy', 'xyyy', 'abc', 'a\nb', 'x', 'x\n']
        for w in words:
            want = _re.match(pat, w) is not None
            wantf = _re.fullmatch(pat, w) is not None
            got = z3.simplify(z3.InRe(z3.StringVal(w), lang))
            gotf = z3.simplify(z3.InRe(z3.StringVal(w), full))
            if not (z3.is_true(got) or z3.is_false(got)) or not (z3.is_true(gotf) or z3.is_false(gotf)):
                sol.push()
                sol.add(z3.InRe(z3.StringVal(w), lang))
                got = z3.BoolVal(sol.check() == z3.sat)
                sol.pop()
                sol.push()
                sol.add(z3.InRe(z3.StringVal(w), full))
                gotf = z3.BoolVal(sol.check() == z3.sat)
                sol.pop()
            if z3.is_true(got) != want or z3.is_true(gotf) != wantf:
                raise AssertionError('regex->z3 self-test: %r on %r: re says %s/%s, translation says %s/%s' % (pat, w, want, wantf, got, gotf))
            sm = z3.simplify(sym_match(pat, [z3.IntVal(ord(c)) for c in w]))
            smf = z3.simplify(sym_match(pat, [z3.IntVal(ord(c)) for c in w], full=True))
            if z3.is_true(sm) != want or z3.is_true(smf) != wantf or not (z3.is_true(sm) or z3.is_false(sm)):
                raise AssertionError('sequence matcher self-test: %r on %r: re says %s/%s, matcher says %s/%s' % (pat, w, want, wantf, sm, smf))
    # re.sub on constant symbolic strings must agree with re.sub
    from .core import Engine, set_engine
    E = Engine(mode='sym')
    set_engine(E)
    try:
        shim = ReShim()
        for pat, repl in [(r' +', ' '), (r'\t|[\r\n]{1,2}', ' '), (r'a|ab', 'X'), (r'ab|a', 'X'), (r'[ab]+?c', '-'), (r'x*', '.'), (r'(a|b)c?', 'Q')]:
            for _ in range(per_pattern):
                w = ''.join(rnd.choice('ab c\t\n\rx') for _ in range(rnd.randint(0, 6)))
                got = shim.sub(pat, repl, SymStr([K(ch) for ch in w])).concrete()
                if got != _re.sub(pat, repl, w):
                    raise AssertionError('re.sub shim self-test: %r on %r: re gives %r, shim gives %r' % (pat, w, _re.sub(pat, repl, w), got))
    finally:
        set_engine(None)
    return True
