"""symx runner: explores harnesses (sharded over processes), confirms counterexamples by concrete replay,
validates path witnesses against the real code, writes evidence, handles known findings and exit codes.

exit 0  every obligation on every explored path discharged (inconclusive items are listed, never counted as success)
exit 1  a counterexample reproduced concretely against the real code and is not a listed known finding
exit 3  harness error (counterexample that does not reproduce, vacuous harness, crash inside the machinery)
"""
import collections
import importlib
import json
import multiprocessing as mp
import os
import sys
import time
import traceback

import z3

from . import core
from .core import Engine, Abort, Unsupported, PathBudget, set_engine, jsonable, unjson

VERIF = os.path.dirname(os.path.dirname(os.path.abspath(__file__)))
NCPU = min(16, os.cpu_count() or 1)


class Harness:
    def __init__(self, name, fn, params=(), functions=(), bounds='', stubs=(), max_paths=None, group=None,
                 validate=True, expect_inconclusive=False, ok_exceptions=()):
        self.name = name
        self.fn = fn
        self.params = tuple(params)
        self.functions = list(functions)
        self.bounds = bounds
        self.stubs = list(stubs)
        self.max_paths = max_paths
        self.group = group or name.split('[')[0]
        self.validate = validate
        self.expect_inconclusive = expect_inconclusive

    def run(self, E):
        # standing shadow for every harness: expressions.np answers isinf/isnan elementwise on object arrays (numpy's C loops
        # refuse dtype=object); for ordinary float arrays it is numpy itself.
        import mitxgraders.helpers.calc.expressions as X
        import voluptuous.schema_builder as VS
        import voluptuous.validators as VV
        from .stubs import shadow, NpObjProxy, sym_isinstance
        set_engine(E)
        try:
            # second standing shadow: the vendored voluptuous sees symbolic numbers / strings as float / int / str
            with shadow(X, np=NpObjProxy()), shadow(VS, isinstance=sym_isinstance), shadow(VV, isinstance=sym_isinstance):
                return self.fn(E, *self.params)
        finally:
            set_engine(None)


def pname(base, **kw):
    return '%s[%s]' % (base, ','.join('%s=%s' % (k, v) for k, v in kw.items()))


class PathTimeout(BaseException):
    """wall-clock budget of one path / one concrete run exceeded (termination is part of several properties)"""


PATH_TIMEOUT_S = 60
CONCRETE_TIMEOUT_S = 20


def _alarm(seconds):
    import signal

    def handler(signum, frame):
        raise PathTimeout()
    try:
        signal.signal(signal.SIGALRM, handler)
        signal.setitimer(signal.ITIMER_REAL, seconds)
        return True
    except (ValueError, OSError):
        return False


def _alarm_off():
    import signal
    try:
        signal.setitimer(signal.ITIMER_REAL, 0)
    except (ValueError, OSError):
        pass


# ------------------------------------------------------------------------------------------------ concrete runs
def run_concrete(h, values):
    E = Engine(mode='conc', values=values)
    try:
        _alarm(CONCRETE_TIMEOUT_S)
        try:
            sig = h.run(E)
        finally:
            _alarm_off()
        return {'kind': 'ret', 'sig': sig, 'failed': list(E.conc_failed), 'checks': [(l, s) for l, s, _ in E.checks]}
    except Abort:
        return {'kind': 'abort', 'sig': None, 'failed': [], 'checks': []}
    except PathTimeout:
        return {'kind': 'timeout', 'sig': 'no result within %d s' % CONCRETE_TIMEOUT_S, 'failed': ['terminates'], 'checks': []}
    except Unsupported as e:
        return {'kind': 'unsupported', 'sig': repr(e), 'failed': [], 'checks': []}
    except Exception as e:   # noqa
        return {'kind': 'exc', 'sig': type(e).__name__, 'failed': list(E.conc_failed), 'checks': [],
                'tb': traceback.format_exc(limit=6)}


# ------------------------------------------------------------------------------------------------ worker
_MODCACHE = {}


def _harness(modname, tier, hname):
    key = (modname, tier)
    if key not in _MODCACHE:
        mod = importlib.import_module(modname)
        _MODCACHE[key] = {h.name: h for h in mod.harnesses(tier)}
    return _MODCACHE[key][hname]


def new_stats():
    return {'paths': 0, 'nontrivial': 0, 'aborted': 0, 'kinds': collections.Counter(), 'checks': 0, 'discharged': 0,
            'unknown': 0, 'labels': collections.Counter(), 'queries': 0, 'solver_s': 0.0, 'cex': [], 'unconfirmed': [],
            'errors': [], 'inconclusive': [], 'validated': 0, 'val_mismatch': [], 'val_skipped': 0, 'samples': [],
            'maybe_infeasible': 0, 'axioms': set(), 'sigs': collections.Counter(), 'bad_models': 0, 'fallback_decided': 0}


def merge_stats(a, b):
    for k in ('paths', 'nontrivial', 'aborted', 'checks', 'discharged', 'unknown', 'queries', 'validated', 'val_skipped',
              'maybe_infeasible', 'bad_models', 'fallback_decided'):
        a[k] += b[k]
    a['solver_s'] += b['solver_s']
    for k in ('kinds', 'labels', 'sigs'):
        a[k].update(b[k])
    for k, cap in (('cex', 50), ('unconfirmed', 20), ('errors', 20), ('inconclusive', 50), ('val_mismatch', 20), ('samples', 6)):
        a[k].extend(b[k])
        del a[k][cap:]
    a['axioms'] |= b['axioms']
    return a


# numpy keeps its floating-point error handling (np.seterr / np.seterrcall) per thread context.  The library configures it when it is imported - in the
# importing thread.  multiprocessing replaces worn-out pool workers by forking from its own helper thread, whose context has numpy's DEFAULTS, so such
# workers would run the library in a mode no user ever sees.  The state found in the main thread after importing the check module (i.e. after the
# library's own np.seterr calls, re-read from /repo on every run) is therefore re-established at the start of every job.
_NP_ERRSTATE = [None]


def _capture_np_errstate():
    import numpy as np
    _NP_ERRSTATE[0] = (dict(np.geterr()), np.geterrcall())


def _restore_np_errstate():
    import numpy as np
    if _NP_ERRSTATE[0] is not None:
        st, cb = _NP_ERRSTATE[0]
        np.seterrcall(cb)
        np.seterr(**st)


def explore_job(args):
    modname, tier, hname, roots, max_paths, max_s, seed, validate_every = args
    try:
        _restore_np_errstate()
        h = _harness(modname, tier, hname)
        return _explore(h, roots, max_paths, max_s, seed, validate_every)
    except BaseException:   # noqa
        st = new_stats()
        st['errors'].append({'harness': hname, 'what': 'worker crash', 'tb': traceback.format_exc(limit=12)})
        return hname, st, []


def _sigkey(sig):
    try:
        return json.dumps(jsonable(sig), sort_keys=True, default=repr)[:300]
    except Exception:   # noqa
        return repr(sig)[:300]


def _explore(h, roots, max_paths, max_s, seed, validate_every):
    E = Engine(mode='sym')
    st = new_stats()
    work = [list(r) for r in roots]
    t0 = time.time()
    npaths = 0
    while work:
        if npaths >= max_paths or time.time() - t0 > max_s:
            break
        prefix = work.pop()
        E._begin_path(prefix)
        E.solver.push()
        kind, sig, err = 'ret', None, None
        try:
            _alarm(PATH_TIMEOUT_S)
            try:
                sig = h.run(E)
            finally:
                _alarm_off()
        except PathTimeout:
            kind, err = 'timeout', 'path did not finish within %d s' % PATH_TIMEOUT_S
        except Abort:
            kind = 'abort'
        except Unsupported as e:
            kind, err = 'unsupported', repr(e)
        except PathBudget:
            kind = 'budget'
        except RecursionError:
            kind, err = 'unsupported', 'RecursionError in harness'
        except Exception as e:   # noqa
            kind, err = 'exc', '%s: %s' % (type(e).__name__, str(e)[:200])
            tb = traceback.format_exc(limit=8)
        set_engine(E)
        if kind != 'abort' and not E.model_ok:
            # final feasibility check of the path condition (a branch taken on 'unknown' may have been infeasible)
            try:
                E._refresh_model()
            except Abort:
                kind = 'abort'
        try:
            # schedule alternatives beyond the prefix
            for i in range(len(prefix), len(E.trace)):
                took, alt = E.trace[i]
                if alt:
                    work.append([t for t, _ in E.trace[:i]] + [not took])
            if kind == 'abort':
                st['aborted'] += 1
            else:
                npaths += 1
                st['paths'] += 1
                if E.trace:
                    st['nontrivial'] += 1
                st['kinds'][kind] += 1
                st['axioms'] |= E.axioms_used
                if E.maybe_infeasible:
                    st['maybe_infeasible'] += 1
                _finish_path(h, E, st, kind, sig, err, locals().get('tb'), validate_every, npaths)
        finally:
            set_engine(None)
            E.solver.pop()
    st['queries'] = E.queries
    st['bad_models'] = E.bad_models
    st['fallback_decided'] = E.fallback_decided
    st['solver_s'] = E.solver_s
    return h.name, st, work


def _finish_path(h, E, st, kind, sig, err, tb, validate_every, npaths):
    values = None
    if kind in ('unsupported', 'budget'):
        st['inconclusive'].append({'harness': h.name, 'what': kind, 'detail': err})
        if kind == 'unsupported':
            # the shadow values cannot follow the code on this path (int() of a symbolic real, a C routine ...): nothing is claimed for it symbolically,
            # but the path's model is still a concrete input of the real code - replay it; a failure there is a reproduced violation
            try:
                values = E.path_model_values()
            except BaseException:   # noqa
                values = None
            conc = run_concrete(h, values) if values is not None else None
            if conc is not None and _concrete_failure(conc):
                _escalate(h, E, st, conc, values, 'symbolic run unsupported (%s); concrete replay of the path\'s model' % str(err)[:80])
            return
    if kind == 'timeout':
        # the real code did not come back on this path: confirm with a concrete run of the same inputs under a (shorter) wall-clock limit
        values = E.path_model_values()
        conc = run_concrete(h, values) if values is not None else None
        if conc is not None and conc['kind'] == 'timeout':
            st['cex'].append({'harness': h.name, 'label': 'terminates', 'values': jsonable(values), 'detail': 'no result within %d s (concrete run)' % CONCRETE_TIMEOUT_S})
        else:
            st['inconclusive'].append({'harness': h.name, 'what': 'path timeout (symbolic run only)', 'values': jsonable(values)})
        return
    if kind == 'exc':
        # an exception the harness did not anticipate: real behaviour or harness bug? replay concretely.
        values = E.path_model_values()
        conc = run_concrete(h, values) if values is not None else None
        if conc is not None and conc['kind'] == 'exc' and conc['sig'] == err.split(':')[0]:
            st['cex'].append({'harness': h.name, 'label': 'unexpected-exception:' + conc['sig'], 'values': jsonable(values),
                              'detail': err})
        elif conc is not None and _concrete_failure(conc) and _escalate(h, E, st, conc, values, 'symbolic run raised %s; concrete replay of the path\'s model'
                                                                        % err.split(':')[0]):
            # the shadow values could not follow the code here, but the replay of the same inputs on the real code (no modelling involved)
            # fails an obligation or lets an unanticipated exception escape: that is a reproduced violation
            pass
        else:
            # raised only under symbolic execution (a numpy/C routine the shadow values cannot enter, or an interrupted solver call
            # surfacing as an exception inside repository code that catches Exception): the path is inconclusive, not a verdict
            st['inconclusive'].append({'harness': h.name, 'what': 'exception on the symbolic path only (not reproduced concretely)',
                                       'detail': err, 'values': jsonable(values)})
        return
    for (label, status, vals) in E.checks:
        st['checks'] += 1
        st['labels'][label] += 1
        if status == 'ok':
            st['discharged'] += 1
        elif status == 'unknown':
            st['unknown'] += 1
            st['inconclusive'].append({'harness': h.name, 'what': 'solver unknown', 'label': label})
        else:
            _confirm(h, E, st, label, vals)
    st['sigs'][_sigkey(sig)] += 1
    if len(st['samples']) < 3 and kind == 'ret':
        values = E.path_model_values()
        st['samples'].append({'harness': h.name, 'decisions': len(E.trace), 'witness_inputs': jsonable(values),
                              'outcome': jsonable(sig), 'obligations': [l for l, _, _ in E.checks]})
    if h.validate and kind == 'ret' and validate_every and (npaths % validate_every == 1 or validate_every == 1):
        values = values or E.path_model_values()
        if values is None:
            st['val_skipped'] += 1
            return
        conc = run_concrete(h, values)
        if conc['kind'] == 'ret' and _sigkey(conc['sig']) == _sigkey(sig) and not conc['failed']:
            st['validated'] += 1
        else:
            v2 = E.dyadic_model_values()
            conc2 = run_concrete(h, v2) if v2 is not None else None
            if conc2 is not None and conc2['kind'] == 'ret' and _sigkey(conc2['sig']) == _sigkey(sig) and not conc2['failed']:
                st['validated'] += 1
            elif _concrete_failure(conc) and _escalate(h, E, st, conc, values, 'witness run of a path whose symbolic obligations were all discharged'):
                # the witness run of this path on the real code fails an obligation (or raises) although the symbolic run discharged everything:
                # an encoding gap in the shadow values, but the concrete failure itself is real and reproduced
                st['val_mismatch'].append({'harness': h.name, 'values': jsonable(values), 'symbolic': jsonable(sig), 'concrete': jsonable(conc.get('sig')),
                                           'kind': conc['kind'], 'failed': conc['failed'], 'tb': conc.get('tb')})
            else:
                st['val_mismatch'].append({'harness': h.name, 'values': jsonable(values), 'symbolic': jsonable(sig),
                                           'concrete': jsonable(conc.get('sig')), 'kind': conc['kind'],
                                           'failed': conc['failed'], 'tb': conc.get('tb')})


def _concrete_failure(conc):
    return conc is not None and ((conc['kind'] == 'ret' and conc['failed']) or conc['kind'] == 'exc')


def _concrete_cex(h, st, conc, values, how):
    labels = list(dict.fromkeys(conc['failed'])) if conc['kind'] == 'ret' else ['unexpected-exception:' + str(conc['sig'])]
    for label in labels:
        if any(c['label'] == label for c in st['cex']):
            continue
        st['cex'].append({'harness': h.name, 'label': label, 'values': jsonable(values), 'detail': 'concrete run only (%s)%s' % (how, (': ' + conc['tb'][-300:]) if conc.get('tb') else '')})


def _escalate(h, E, st, conc, values, how):
    """A replay of a path's model on the real code failed.  A foreign exception is a fact about the real code.  A failed obligation could also be
    an artefact of the 1e-9 slack of the concrete comparisons when the model sits within that slack of a decision boundary (models may contain
    values like 1e-17): it counts only if a re-draw of the model on a coarse dyadic grid (k/8, k/1024), where no such coincidence is possible,
    fails as well - and that re-draw is what gets reported."""
    if conc['kind'] == 'exc':
        _concrete_cex(h, st, conc, values, how)
        return True
    for denom in (8, 1024):
        try:
            v2 = E.dyadic_model_values(denom=denom)
        except Exception:   # noqa
            v2 = None
        if v2 is None:
            continue
        c2 = run_concrete(h, v2)
        if c2['kind'] == 'ret' and c2['failed']:
            _concrete_cex(h, st, c2, v2, how + '; dyadic re-draw')
            return True
    return False


def _confirm(h, E, st, label, vals):
    """a sat answer is only a candidate: replay concretely on the real code"""
    if any(c['label'] == label for c in st['cex']):
        st['more_cex'] = st.get('more_cex', 0) + 1      # same obligation already confirmed in this job: do not pay again
        return
    tried = []
    cands = [vals] if vals is not None else []
    neg = E._cex_neg.get(label) if hasattr(E, '_cex_neg') else None
    for denom in (1, 8, 1024):
        try:
            v = E.dyadic_model_values(extra=neg, denom=denom)
        except Exception:   # noqa
            v = None
        if v is not None:
            cands.append(v)
    cands += _random_candidates(E, vals, 4)
    for v in cands:
        conc = run_concrete(h, v)
        tried.append({'values': jsonable(v), 'kind': conc['kind'], 'failed': conc['failed'], 'sig': jsonable(conc.get('sig'))})
        if label in conc['failed']:
            st['cex'].append({'harness': h.name, 'label': label, 'values': jsonable(v)})
            return
    st['unconfirmed'].append({'harness': h.name, 'label': label, 'tried': tried[:3]})


def _random_candidates(E, base, n):
    """generic concrete inputs: keep discrete inputs of the solver model, re-draw the reals (a concrete failure of the real code
    against the oracle is a genuine violation whichever way its inputs were found)"""
    import random
    if base is None:
        return []
    rnd = random.Random(12345)
    out = []
    for _ in range(n):
        v = dict(base)
        ok = True
        for name, (kind, var) in E.inputs.items():
            if kind == 'real' and name in E.ranges:
                lo, hi = E.ranges[name]
                lo = -5.0 if lo is None else float(lo)
                hi = lo + 10.0 if hi is None else float(hi)
                v[name] = round(rnd.uniform(lo, hi), 3)
        if ok:
            out.append(v)
    return out


# ------------------------------------------------------------------------------------------------ driver
def run_harnesses(modname, tier, hs, deadline_s, seed, slice_s=6.0, slice_paths=400):
    """returns {hname: stats}, {hname: leftover_count}"""
    stats = {h.name: new_stats() for h in hs}
    leftover = collections.Counter()
    queue = collections.deque()
    budget = {}
    for h in hs:
        budget[h.name] = h.max_paths or 10 ** 9
        queue.append((h.name, [[]]))
    t0 = time.time()
    _capture_np_errstate()
    ctx = mp.get_context('fork')
    pool = ctx.Pool(NCPU, maxtasksperchild=200)
    pending = []
    started = {}
    hmap = {h.name: h for h in hs}
    try:
        while queue or pending:
            now = time.time()
            timed_out = now - t0 > deadline_s
            while queue and len(pending) < NCPU * 2:
                hname, roots = queue.popleft()
                if timed_out or stats[hname]['paths'] >= budget[hname]:
                    leftover[hname] += len(roots)
                    continue
                h = hmap[hname]
                ve = 1 if tier == 'thorough' else 5
                if not h.validate:
                    ve = 0
                a = (modname, tier, hname, roots, min(slice_paths, budget[hname] - stats[hname]['paths']),
                     min(slice_s, max(1.0, deadline_s - (now - t0))), seed, ve)
                pending.append(pool.apply_async(explore_job, (a,)))
                started[id(pending[-1])] = (time.time(), hname, roots)
            still = []
            progressed = False
            hung = [r for r in pending if not r.ready() and time.time() - started[id(r)][0] > max(90.0, 10 * slice_s)]
            if hung:
                # a worker stuck inside a solver call that ignores its timeout: give up on those prefixes (recorded), restart the pool
                for r in hung:
                    _, hname, roots = started[id(r)]
                    stats[hname]['inconclusive'].append({'harness': hname, 'what': 'worker hung in a solver call; %d prefixes abandoned' % len(roots)})
                    leftover[hname] += len(roots)
                requeue = [started[id(r)] for r in pending if not r.ready() and r not in hung]
                pool.terminate()
                pool.join()
                pool = ctx.Pool(NCPU, maxtasksperchild=200)
                pending = [r for r in pending if r.ready()]
                for _, hname, roots in requeue:
                    queue.appendleft((hname, roots))
            for r in pending:
                if r.ready():
                    progressed = True
                    hname, st, work = r.get()
                    merge_stats(stats[hname], st)
                    if work:
                        # split leftover prefixes into chunks so that idle workers get some
                        work.sort(key=len)
                        nchunks = min(len(work), max(1, NCPU))
                        for c in range(nchunks):
                            chunk = work[c::nchunks]
                            if chunk:
                                queue.append((hname, chunk))
                else:
                    still.append(r)
            pending = still
            if not progressed:
                time.sleep(0.02)
    finally:
        pool.terminate()
        pool.join()
    return stats, leftover


def load_known():
    """known_findings.txt: 'known: property=C12 harness=<name> label=<label> :: what'; 'fixed:' lines suppress nothing"""
    p = os.path.join(VERIF, 'known_findings.txt')
    out = []
    if not os.path.exists(p):
        return out
    for line in open(p):
        line = line.strip()
        if not line.startswith('known:'):
            continue
        head, _, what = line[len('known:'):].partition('::')
        d = {'what': what.strip(), 'status': 'known'}
        for tok in head.split():
            k, _, v = tok.partition('=')
            d[k] = v
        d['id'] = '%s/%s/%s' % (d.get('property'), d.get('harness'), d.get('label'))
        out.append(d)
    return out


def match_known(known, pid, cex):
    for k in known:
        if k.get('property') == pid and k.get('harness') == cex['harness'] and k.get('label') == cex['label']:
            return k
    return None


def run_check(modname, tier, seed=0):
    t0 = time.time()
    mod = importlib.import_module(modname)
    pid = mod.PROPERTY
    hs = mod.harnesses(tier)
    assert len({h.name for h in hs}) == len(hs), 'duplicate harness names'
    only = os.environ.get('VERIF_ONLY')       # development aid: run a subset of the harnesses; no evidence is written, no vacuity guard
    if only:
        import re as _re
        hs = [h for h in hs if _re.search(only, h.name)]
    deadline = getattr(mod, 'DEADLINE', {}).get(tier, 150 if tier == 'quick' else 1500)
    # optional engine self-tests of the module (shim validation etc.)
    selftest_err = None
    if hasattr(mod, 'selftest'):
        try:
            mod.selftest()
        except Exception:   # noqa
            selftest_err = traceback.format_exc(limit=8)
    stats, leftover = ({}, {}) if selftest_err else run_harnesses(modname, tier, hs, deadline, seed)
    known = load_known()
    tot = new_stats()
    per_h = []
    violations, known_hits, errors = [], [], []
    if selftest_err:
        errors.append({'what': 'module self-test failed', 'tb': selftest_err})
    for h in hs:
        st = stats.get(h.name)
        if st is None:
            continue
        merge_stats(tot, st)
        exhaustive = leftover.get(h.name, 0) == 0 and not st['inconclusive'] and not st['errors']
        per_h.append({'harness': h.name, 'paths': st['paths'], 'infeasible_pruned': st['aborted'], 'obligations': st['checks'],
                      'discharged': st['discharged'], 'unknown': st['unknown'], 'queries': st['queries'],
                      'solver_s': round(st['solver_s'], 2), 'exhaustive': exhaustive, 'unexplored_prefixes': leftover.get(h.name, 0),
                      'outcome_classes': len(st['sigs']), 'witness_validated': st['validated'],
                      'witness_mismatch': len(st['val_mismatch']), 'bounds': h.bounds})
        seen = set()
        for c in st['cex']:
            key = (c['harness'], c['label'])
            k = match_known(known, pid, c)
            if k is not None:
                if key not in seen:
                    known_hits.append((k, c))
            elif key not in seen:
                violations.append(c)
            seen.add(key)
        for u in st['unconfirmed']:
            errors.append({'what': 'counterexample did not reproduce concretely', **u})
        for e in st['errors']:
            errors.append(e)
        if st['checks'] == 0 and not st['cex'] and not st['errors'] and not st['inconclusive'] and leftover.get(h.name, 0) == 0:
            errors.append({'what': 'vacuous harness: no obligation reached on any path', 'harness': h.name})
    # expected labels (reachability twins): every label listed by the module must have been reached
    for lab in getattr(mod, 'MUST_REACH', []):
        if tot['labels'].get(lab, 0) == 0 and not selftest_err and not only:
            errors.append({'what': 'obligation never reached (vacuity guard)', 'label': lab})
    wall = time.time() - t0
    exhaustive_all = all(p['exhaustive'] for p in per_h) and not errors
    functions = sorted({f for h in hs for f in h.functions})
    stubs = sorted({s for h in hs for s in h.stubs})
    ev = {
        'property_id': pid, 'tier': tier, 'seed': seed, 'level': 'other',
        'coverage': {
            'explanation': mod.EXPLANATION,
            'evaluations': max(tot['paths'], 0), 'distinct_nontrivial': tot['nontrivial'],
            'rule': 'one evaluation = one feasible execution path of the real code under symbolic inputs (a path stands for all '
                    'inputs satisfying its path condition); non-trivial = the path contains at least one symbolic decision; '
                    'paths are distinct by construction (distinct decision prefixes)',
            'obligations': tot['checks'], 'discharged': tot['discharged'], 'solver_unknown': tot['unknown'],
            'inconclusive_items': tot['inconclusive'][:20], 'queries': tot['queries'], 'solver_s': round(tot['solver_s'], 2),
            'infeasible_pruned': tot['aborted'], 'paths_with_unestablished_feasibility': tot['maybe_infeasible'],
            'solver_models_rejected_as_invalid': tot['bad_models'], 'obligations_decided_by_fallback_solver': tot['fallback_decided'],
            'traces_validated_against_impl': tot['validated'], 'witness_mismatches': tot['val_mismatch'][:5],
            'obligation_labels_reached': dict(tot['labels']),
            'functions_encoded': functions, 'stubs': stubs, 'axioms': sorted(tot['axioms']),
            'bounds': getattr(mod, 'BOUNDS', {}).get(tier, ''), 'outside_claim': getattr(mod, 'OUTSIDE', []),
            'harnesses': _compact(per_h), 'exhaustive': exhaustive_all, 'samples': tot['samples'][:6] or [{'note': 'no path completed'}],
            'known_findings_hit': [k['id'] for k, _ in known_hits],
            'harness_errors': [{k: (str(v)[-1200:] if k == 'tb' else v) for k, v in e.items()} if isinstance(e, dict) else str(e) for e in errors[:10]],
            'checker_cmd': './vcheck %s --tier %s' % (pid, tier),
            'trusted_base': ['z3 %s' % z3.get_version_string(), 'CPython %s' % sys.version.split()[0],
                             'symx shadow-value engine (/verif/symx)', 'exact-real model of floats'] + stubs,
        },
        'assumptions': list(getattr(mod, 'ASSUMPTIONS', [])) + ['floats modelled as exact reals (IEEE rounding outside the claim)'],
        'wall_s': round(wall, 2), 'violations': len(violations),
    }
    if not only:
        os.makedirs(os.path.join(VERIF, 'evidence'), exist_ok=True)
        with open(os.path.join(VERIF, 'evidence', pid + '.json'), 'w') as f:
            json.dump(ev, f, indent=1, default=repr)
    # ---- report
    print('%s tier=%s: %d harnesses, %d paths, %d/%d obligations discharged, %d unknown, %d queries, solver %.1fs, wall %.1fs, '
          'validated %d witness runs (%d mismatches)' % (pid, tier, len(hs), tot['paths'], tot['discharged'], tot['checks'], tot['unknown'],
                                                         tot['queries'], tot['solver_s'], wall, tot['validated'], len(tot['val_mismatch'])))
    for p in per_h:
        if not p['exhaustive']:
            print('INCONCLUSIVE %s: not exhaustive (%d unexplored prefixes, %d unknown)' % (p['harness'], p['unexplored_prefixes'], p['unknown']))
    for it in tot['inconclusive'][:10]:
        print('INCONCLUSIVE item: %s' % json.dumps(it, default=repr)[:300])
    for m in tot['val_mismatch'][:5]:
        print('NOTE witness mismatch (model at a float-sensitive boundary or encoding gap): %s' % json.dumps(m, default=repr)[:400])
    for k, c in known_hits:
        print('KNOWN-FINDING: property=%s %s [%s %s]' % (pid, k['what'], c['harness'], c['label']))
    rc = 0
    if violations:
        os.makedirs(os.path.join(VERIF, 'replays'), exist_ok=True)
        for i, c in enumerate(violations):
            path = os.path.join(VERIF, 'replays', '%s-%s.json' % (pid, _safe(c['harness'] + '-' + c['label'])))
            with open(path, 'w') as f:
                json.dump({'property': pid, 'module': modname, 'tier': tier, **c}, f, indent=1)
            print('VIOLATION property=%s replay=%s' % (pid, path))
            print('  harness=%s obligation=%s inputs=%s' % (c['harness'], c['label'], json.dumps(c['values'])[:400]))
        rc = 1
    if errors:
        for e in errors[:6]:
            tb = e.pop('tb', None) if isinstance(e, dict) else None
            print('HARNESS-ERROR: %s' % json.dumps(e, default=repr)[:700])
            if tb:
                print('   ...' + str(tb)[-600:].replace('\n', '\n   '))
        if rc == 0:
            rc = 3
    return rc


def _compact(per_h, limit=150):
    """evidence stays readable: beyond `limit` harnesses, report per group (harness base name) with totals and a few members"""
    if len(per_h) <= limit:
        return per_h
    groups = collections.OrderedDict()
    for p in per_h:
        g = p['harness'].split('[')[0]
        d = groups.setdefault(g, {'harness_group': g, 'harnesses': 0, 'paths': 0, 'infeasible_pruned': 0, 'obligations': 0, 'discharged': 0, 'unknown': 0, 'queries': 0,
                                  'solver_s': 0.0, 'exhaustive': True, 'unexplored_prefixes': 0, 'witness_validated': 0, 'witness_mismatch': 0, 'members_sample': []})
        d['harnesses'] += 1
        for k in ('paths', 'infeasible_pruned', 'obligations', 'discharged', 'unknown', 'queries', 'unexplored_prefixes', 'witness_validated', 'witness_mismatch'):
            d[k] += p[k]
        d['solver_s'] = round(d['solver_s'] + p['solver_s'], 2)
        d['exhaustive'] = d['exhaustive'] and p['exhaustive']
        if len(d['members_sample']) < 5:
            d['members_sample'].append({'harness': p['harness'], 'paths': p['paths'], 'bounds': p['bounds']})
    return list(groups.values())


def _safe(s):
    return ''.join(ch if ch.isalnum() or ch in '-_.' else '_' for ch in s)[:120]


def replay(path):
    d = json.load(open(path))
    mod = importlib.import_module(d['module'])
    hs = {h.name: h for t in ('thorough', 'quick') for h in mod.harnesses(t)}
    h = hs[d['harness']]
    conc = run_concrete(h, unjson(d['values']))
    print('replay %s: harness=%s outcome=%s failed=%s' % (path, h.name, conc['kind'], conc['failed']))
    if d['label'] in conc['failed'] or (d['label'].startswith('unexpected-exception') and conc['kind'] == 'exc') or (d['label'] == 'terminates' and conc['kind'] == 'timeout'):
        print('VIOLATION property=%s replay=%s' % (d['property'], path))
        return 1
    print('does not reproduce on the current tree')
    return 0
