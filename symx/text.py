"""Symbolic strings: a SymStr is a list of SymChar (z3 Int code points) whose LENGTH is concrete on every path.

Character tests are single symbolic booleans (c in {...} is one disjunction), so the number of paths depends on the character CLASSES
the code distinguishes, never on the alphabet size.  Every method is differentially validated against CPython's str (selftest()).
"""
import random
import sys
import unicodedata

import z3

from .core import ENG, SymBool, Abort, Unsupported, POISON, sand, sor, snot

# characters for which str.isspace() is True (== those str.strip()/split() remove), computed from the running interpreter
WS = [c for c in range(0x110000) if chr(c).isspace()]
MAXCP = 0x10FFFF


def _cls(pred, limit=0x110000):
    """ranges of code points satisfying pred"""
    out = []
    start = None
    for c in range(limit + 1):
        ok = c < limit and pred(chr(c))
        if ok and start is None:
            start = c
        if not ok and start is not None:
            out.append((start, c - 1))
            start = None
    return out


_RANGES = {}


def ranges(name):
    if name not in _RANGES:
        _RANGES[name] = {'alpha': lambda: _cls(str.isalpha), 'alnum': lambda: _cls(str.isalnum), 'digit': lambda: _cls(str.isdigit), 'decimal': lambda: _cls(str.isdecimal),
                         'upper_changes': lambda: _cls(lambda ch: ch.upper() != ch), 'lower_changes': lambda: _cls(lambda ch: ch.lower() != ch)}[name]()
    return _RANGES[name]


def in_ranges(c, rs):
    return z3.Or([c == a if a == b else z3.And(c >= a, c <= b) for a, b in rs]) if rs else z3.BoolVal(False)


_TEMPLATES = {}
_X = z3.Int('%tmpl')


def member(key, c, make_ranges):
    """membership of code point term c in a (large) fixed set of ranges: the formula is built once over a placeholder and
    instantiated by substitution (building hundreds of range atoms through the Python API per character is far too slow)"""
    if key not in _TEMPLATES:
        _TEMPLATES[key] = in_ranges(_X, make_ranges())
    if z3.is_int_value(c):
        v = c.as_long()
        return z3.BoolVal(any(a <= v <= b for a, b in _RANGE_CACHE.setdefault(key, make_ranges())))
    return z3.substitute(_TEMPLATES[key], (_X, c))


_RANGE_CACHE = {}


def chars_to_ranges(chars):
    cps = sorted({ord(ch) for ch in chars})
    out = []
    for cp in cps:
        if out and out[-1][1] == cp - 1:
            out[-1][1] = cp
        else:
            out.append([cp, cp])
    return [tuple(r) for r in out]


ASCII_LETTERS = [(65, 90), (97, 122)]
# a harness whose alphabet provably contains no non-ASCII cased character may switch the per-character case check off (see caseless())
NONASCII_CASELESS = [False]


class caseless:
    def __enter__(self):
        self.old = NONASCII_CASELESS[0]
        NONASCII_CASELESS[0] = True

    def __exit__(self, *a):
        NONASCII_CASELESS[0] = self.old



class SymChar:
    CANDS = list('()[]{}')          # candidate keys for hashing (dict/set lookups keyed by real one-character strings)

    def __init__(self, c):
        self.c = c

    def __eq__(self, o):
        if isinstance(o, SymChar):
            return SymBool(self.c == o.c)
        if isinstance(o, str):
            if len(o) != 1:
                return False
            return SymBool(self.c == ord(o))
        if isinstance(o, SymStr):
            return o == self
        return False

    def __ne__(self, o):
        return snot(self == o)

    def in_set(self, chars):
        if not isinstance(chars, (str, frozenset)):
            chars = ''.join(chars)
        if not chars:
            return False
        if len(chars) <= 3:
            return SymBool(z3.Or([self.c == ord(ch) for ch in chars]))
        return SymBool(member(('set', chars), self.c, lambda: chars_to_ranges(chars)))

    def isspace(self):
        return SymBool(member('ws', self.c, lambda: chars_to_ranges(chr(w) for w in WS)))

    def isalpha(self):
        return SymBool(member('alpha', self.c, lambda: ranges('alpha')))

    def isalnum(self):
        return SymBool(member('alnum', self.c, lambda: ranges('alnum')))

    def isdigit(self):
        return SymBool(member('digit', self.c, lambda: ranges('digit')))

    def _case(self, up):
        """ASCII case mapping is symbolic; a non-ASCII character whose case mapping would change it is unsupported (forks once)"""
        c = self.c
        key = 'upper_changes' if up else 'lower_changes'
        if not NONASCII_CASELESS[0] and ENG().decide(member(key + '_nonascii', c, lambda: [(a, b) for a, b in ranges(key) if a > 127])):
            raise Unsupported('case mapping of a non-ASCII letter')
        if up:
            return SymChar(z3.If(z3.And(c >= 97, c <= 122), c - 32, c))
        return SymChar(z3.If(z3.And(c >= 65, c <= 90), c + 32, c))

    def upper(self):
        return self._case(True)

    def lower(self):
        return self._case(False)

    def __hash__(self):
        for ch in SymChar.CANDS:
            if bool(self == ch):
                return hash(ch)
        return 0x0DDBA11

    def __len__(self):
        return 1

    def __iter__(self):
        return iter([self])

    def __getitem__(self, i):
        return SymStr([self])[i]

    def __add__(self, o):
        return SymStr([self]) + o

    def __radd__(self, o):
        return o + SymStr([self]) if isinstance(o, SymStr) else SymStr([K(c) for c in o] + [self])

    def __format__(self, s):
        return POISON

    def __str__(self):
        return POISON

    __repr__ = __str__


_KC = {}


def K(ch):
    if ch not in _KC:
        _KC[ch] = SymChar(z3.IntVal(ord(ch)))
    return _KC[ch]


def _conc(ch):
    """concrete code point of a SymChar if its term is a numeral, else None"""
    e = ch.c
    if not z3.is_int_value(e):
        e = z3.simplify(e)
    if z3.is_int_value(e):
        return e.as_long()
    return None


class SymStr:
    def __init__(self, chars):
        self.ch = list(chars)

    # ---- basics
    def __len__(self):
        return len(self.ch)

    def __iter__(self):
        return iter(self.ch)

    def __getitem__(self, i):
        if isinstance(i, slice):
            return SymStr(self.ch[i])
        return self.ch[i]

    def __bool__(self):
        return bool(self.ch)

    @staticmethod
    def lift(o):
        if isinstance(o, SymStr):
            return o.ch
        if isinstance(o, SymChar):
            return [o]
        if isinstance(o, str):
            return [K(c) for c in o]
        return None

    def concrete(self):
        """the plain str if every character is a numeral, else None"""
        cs = [_conc(c) for c in self.ch]
        if all(c is not None for c in cs):
            return ''.join(chr(c) for c in cs)
        return None

    def __add__(self, o):
        oc = SymStr.lift(o)
        if oc is None:
            return NotImplemented
        return SymStr(self.ch + oc)

    def __radd__(self, o):
        oc = SymStr.lift(o)
        if oc is None:
            return NotImplemented
        return SymStr(oc + self.ch)

    def __mul__(self, n):
        return SymStr(self.ch * n)

    def __eq__(self, o):
        oc = SymStr.lift(o)
        if oc is None or len(oc) != len(self.ch):
            return False
        if not oc:
            return True
        return SymBool(z3.And([a.c == b.c for a, b in zip(self.ch, oc)]))

    def __ne__(self, o):
        return snot(self == o)

    def __hash__(self):
        return 0x5EEDBEEF       # constant: set/dict operations fall back to (forking) equality

    def _match_at(self, i, pat):
        if i < 0 or i + len(pat) > len(self.ch):
            return False
        if not pat:
            return True
        return SymBool(z3.And([self.ch[i + k].c == p.c for k, p in enumerate(pat)]))

    def startswith(self, pat, start=0):
        if isinstance(pat, tuple):
            return sor(*[self.startswith(p, start) for p in pat])
        return self._match_at(start, SymStr.lift(pat))

    def endswith(self, pat):
        if isinstance(pat, tuple):
            return sor(*[self.endswith(p) for p in pat])
        p = SymStr.lift(pat)
        return self._match_at(len(self.ch) - len(p), p)

    def __contains__(self, o):
        pat = SymStr.lift(o)
        if pat is None:
            raise TypeError("'in <string>' requires string as left operand")
        if not pat:
            return True
        return bool(sor(*[self._match_at(i, pat) for i in range(len(self.ch) - len(pat) + 1)]))

    def find(self, o, start=0):
        pat = SymStr.lift(o)
        for i in range(start, len(self.ch) - len(pat) + 1):
            if bool(self._match_at(i, pat)):
                return i
        return -1

    def count(self, o):
        pat = SymStr.lift(o)
        n, i = 0, 0
        while i <= len(self.ch) - len(pat):
            if bool(self._match_at(i, pat)):
                n += 1
                i += max(1, len(pat))
            else:
                i += 1
        return n

    def replace(self, old, new, count=-1):
        old = SymStr.lift(old)
        new = SymStr.lift(new)
        if len(old) == 1 and len(new) == 1 and count < 0:   # no fork needed
            return SymStr([SymChar(z3.If(c.c == old[0].c, new[0].c, c.c)) for c in self.ch])
        if not old:
            raise Unsupported('replace of the empty string')
        out = []
        i = 0
        while i < len(self.ch):
            if count != 0 and bool(self._match_at(i, old)):
                out += new
                i += len(old)
                count -= 1
            else:
                out.append(self.ch[i])
                i += 1
        return SymStr(out)

    def lower(self):
        return SymStr([c.lower() for c in self.ch])

    def upper(self):
        return SymStr([c.upper() for c in self.ch])

    def strip(self, chars=None):
        return self.lstrip(chars).rstrip(chars)

    def _strippable(self, c, chars):
        return c.isspace() if chars is None else c.in_set(chars)

    def lstrip(self, chars=None):
        a = 0
        while a < len(self.ch) and bool(self._strippable(self.ch[a], chars)):
            a += 1
        return SymStr(self.ch[a:])

    def rstrip(self, chars=None):
        b = len(self.ch)
        while b > 0 and bool(self._strippable(self.ch[b - 1], chars)):
            b -= 1
        return SymStr(self.ch[:b])

    def expandtabs(self, tabsize=8):
        out = []
        col = 0
        for c in self.ch:
            if bool(c == '\t'):
                n = tabsize - col % tabsize
                out += [K(' ')] * n
                col += n
            elif bool(c.in_set('\n\r')):
                out.append(c)
                col = 0
            else:
                out.append(c)
                col += 1
        return SymStr(out)

    def split(self, sep=None, maxsplit=-1):
        if maxsplit != -1:
            raise Unsupported('split with maxsplit')
        if sep is None:
            out, cur = [], []
            for c in self.ch:
                if bool(c.isspace()):
                    if cur:
                        out.append(SymStr(cur))
                        cur = []
                else:
                    cur.append(c)
            if cur:
                out.append(SymStr(cur))
            return out
        sep = SymStr.lift(sep)
        if not sep:
            raise ValueError('empty separator')
        out, cur = [], []
        i = 0
        while i < len(self.ch):
            if bool(self._match_at(i, sep)):
                out.append(SymStr(cur))
                cur = []
                i += len(sep)
            else:
                cur.append(self.ch[i])
                i += 1
        out.append(SymStr(cur))
        return out

    def join(self, items):
        out = []
        for k, it in enumerate(items):
            if k:
                out += self.ch
            out += SymStr.lift(it)
        return SymStr(out)

    def isspace(self):
        return bool(self.ch) and sand(*[c.isspace() for c in self.ch])

    def isalpha(self):
        return bool(self.ch) and sand(*[c.isalpha() for c in self.ch])

    def isalnum(self):
        return bool(self.ch) and sand(*[c.isalnum() for c in self.ch])

    def isdigit(self):
        return bool(self.ch) and sand(*[c.isdigit() for c in self.ch])

    def encode(self, *a):
        raise Unsupported('encode of a symbolic string')

    def __format__(self, s):
        return POISON

    def __str__(self):
        return POISON

    def __repr__(self):
        return '<SymStr len %d>' % len(self.ch)


# ------------------------------------------------------------------------------------------------ alphabets
def alphabet(chars=None, ranges_=None):
    """constraint builder: code point in the given characters / ranges"""
    def f(v):
        parts = []
        if chars:
            parts += [v == ord(c) for c in chars]
        for a, b in (ranges_ or []):
            parts.append(z3.And(v >= a, v <= b))
        return z3.Or(parts)
    return f


def any_unicode(v):
    """every code point a Python str can hold except lone surrogates"""
    return z3.And(v >= 0, v <= MAXCP, z3.Or(v < 0xD800, v > 0xDFFF))


def fresh_str(E, name, maxlen, constraint=any_unicode, minlen=0):
    """symbolic string input: forks over the length, then one z3 Int per character.  Concrete mode: the stored str."""
    if E.mode == 'conc':
        E.inputs[name] = ('str', None)
        if name not in E.values:
            from .core import Unsupported
            raise Unsupported('replayed model has no value for the string input %s' % name)
        return E.values[name]
    n = minlen
    while n < maxlen and E.decide(z3.Bool('%s.len>%d' % (name, n))):
        n += 1
    cs = []
    for i in range(n):
        v = z3.Int('%s[%d]' % (name, i))
        E.assume(constraint(v))
        cs.append(v)
    E.inputs[name] = ('str', cs)
    return SymStr([SymChar(v) for v in cs])


# ------------------------------------------------------------------------------------------------ self test (differential vs CPython)
def selftest(rounds=60, seed=7):
    """every SymStr method on constant characters must agree with str (all decisions are literal, no solver needed)"""
    from .core import Engine, set_engine
    rnd = random.Random(seed)
    alpha = ' \t\n\rab AB,;()[]{}x9_  '
    E = Engine(mode='sym')
    set_engine(E)
    try:
        for _ in range(rounds):
            s = ''.join(rnd.choice(alpha) for _ in range(rnd.randint(0, 8)))
            S = SymStr([K(c) for c in s])

            def same(a, b):
                if isinstance(a, SymStr):
                    return a.concrete() == b
                if isinstance(a, list):
                    return len(a) == len(b) and all(same(x, y) for x, y in zip(a, b))
                if isinstance(a, SymBool):
                    return bool(a) == b
                return a == b
            checks = [
                (S.strip(), s.strip()), (S.lstrip(), s.lstrip()), (S.rstrip(), s.rstrip()), (S.lower(), s.lower()), (S.upper(), s.upper()),
                (S.replace(' ', ''), s.replace(' ', '')), (S.replace('\r\n', ' '), s.replace('\r\n', ' ')), (S.replace('a', 'xy'), s.replace('a', 'xy')),
                (S.split(), s.split()), (S.split(','), s.split(',')), (S.split('a '), s.split('a ')), (S.expandtabs(), s.expandtabs()),
                (S.startswith('a'), s.startswith('a')), (S.endswith(' '), s.endswith(' ')), (('a ' in S), ('a ' in s)), (S.find(','), s.find(',')),
                (S.count('a'), s.count('a')), (S == s, True), (S + 'q', s + 'q'), ('q' + S, 'q' + s), (S[1:3], s[1:3]), (len(S), len(s)),
                (S.isspace(), s.isspace()), (S.isalpha(), s.isalpha()), (S.isalnum(), s.isalnum()), (SymStr([K(',')]).join([S, S]), ','.join([s, s])),
            ]
            for k, (a, b) in enumerate(checks):
                if not same(a, b):
                    raise AssertionError('SymStr self-test: method #%d disagrees with str on %r' % (k, s))
    finally:
        set_engine(None)
    return True
