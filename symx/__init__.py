from .core import *   # noqa
from .core import _as_py, _x   # noqa
from .run import Harness, pname   # noqa
