"""symx core: shadow symbolic values + DFS re-execution path explorer on z3.

The harness function is an ordinary Python function that receives the engine ``E`` and pushes symbolic
values (``E.real``, ``E.int``, ``E.bool`` ...) through the *unmodified* repository code.  Whenever
Python needs a concrete decision (``__bool__``, ``__index__``, ``__hash__``) the engine forks: the
function is re-executed from the start for every feasible decision prefix.  Obligations are stated with
``E.check(label, cond)`` and decided by z3 as ``pc AND NOT cond``.

The same harness runs in *concrete* mode (``E.mode == 'conc'``): ``E.real`` then returns the plain
Python value stored under that name, the real code runs on ordinary floats/ints/strs and ``E.check``
simply evaluates the condition.  Concrete mode is used to replay solver models (counterexample
confirmation, path-witness validation, ``vcheck replay``).
"""
import fractions
import math
import numbers
import time

import numpy as np
import z3


class Abort(BaseException):
    """Current path is infeasible / pruned (BaseException so that repo code's `except Exception` never eats it)."""


class Unsupported(BaseException):
    """The path needs something the engine does not model -> path is inconclusive."""


class PathBudget(BaseException):
    """Per-path decision budget exceeded."""


POISON = '⟦sym⟧'
QTIMEOUT_MS = 10000
MAX_DECISIONS = 4000


class _Watchdog:
    """z3's own `timeout` parameter is not always honoured inside non-linear preprocessing; a per-process watchdog thread
    interrupts the context when a query overruns its deadline (the query then answers `unknown`).  Arming, disarming and
    interrupting happen under one lock, so no interrupt can be delivered after the query it was meant for has returned."""

    def __init__(self):
        import threading
        self.lock = threading.Lock()
        self.deadline = None
        self.ctx = None
        self.thread = None
        self.pid = None
        self.fired = 0

    def _loop(self):
        while True:
            time.sleep(0.25)
            with self.lock:
                d = self.deadline
                if d is not None and time.time() > d:
                    try:
                        self.ctx.interrupt()
                        self.fired += 1
                    except Exception:   # noqa
                        pass
                    self.deadline = None

    def arm(self, ctx, deadline):
        import os
        import threading
        if self.thread is None or self.pid != os.getpid():
            self.pid = os.getpid()
            self.lock = threading.Lock()
            self.thread = threading.Thread(target=self._loop, daemon=True)
            self.thread.start()
        with self.lock:
            self.ctx = ctx
            self.deadline = deadline

    def disarm(self):
        with self.lock:
            self.deadline = None


_WATCHDOG = _Watchdog()


def _is_nonfinite(x):
    return isinstance(x, float) and (x != x or x in (math.inf, -math.inf))


class Engine:
    def __init__(self, mode='sym', values=None, qtimeout_ms=QTIMEOUT_MS):
        self.mode = mode
        self.values = dict(values or {})
        self.qtimeout_ms = qtimeout_ms
        self.fallback_ms = 15000
        if mode == 'sym':
            self.solver = z3.Solver()
            self.solver.set('timeout', qtimeout_ms)
        self.queries = 0
        self.solver_s = 0.0
        self.unknowns = 0
        self.bad_models = 0
        self.fallback_decided = 0
        self._begin_path([])

    # ------------------------------------------------------------------ path state
    def _begin_path(self, prefix):
        self.prefix = list(prefix)
        self.trace = []          # (took, alt_schedulable)
        self.pc = []
        self.nfresh = 0
        self.inputs = {}         # name -> (kind, z3 expr | None)
        self.ranges = {}
        self.model = None
        self.model_ok = False
        self.memo = {}
        self.checks = []         # (label, status, detail)
        self.notes = []
        self.maybe_infeasible = False
        self.conc_failed = []    # concrete mode: failed labels
        self.axioms_used = set()
        self._cex_neg = {}

    # ------------------------------------------------------------------ solver plumbing
    def _check(self, *extra):
        t = time.time()
        self.queries += 1
        _WATCHDOG.arm(self.solver.ctx, t + self.qtimeout_ms / 1000.0 * 1.5 + 2.0)
        try:
            r = self.solver.check(*extra)
        except z3.Z3Exception:
            r = z3.unknown          # e.g. 'canceled' after a watchdog interrupt
        finally:
            _WATCHDOG.disarm()
        self.solver_s += time.time() - t
        if r == z3.unknown:
            self.unknowns += 1
        return r

    def _get_model(self):
        try:
            return self.solver.model()
        except z3.Z3Exception:
            return None              # an interrupted query can answer sat without a usable model

    def _refresh_model(self):
        if self.model_ok:
            return True
        r = self._check()
        if r == z3.sat:
            self.model = self._get_model()
            self.model_ok = self.model is not None
            if self.model_ok:
                return True
            self.unknowns += 1
            return False
        if r == z3.unsat:
            raise Abort()
        self.model = None
        return False

    def _model_true(self, e):
        """True/False if current model decides e, None if no usable model."""
        if not self.model_ok or self.model is None:
            return None
        try:
            v = self.model.eval(e, model_completion=True)
        except z3.Z3Exception:
            return None
        if z3.is_true(v):
            return True
        if z3.is_false(v):
            return False
        return None

    def _add(self, c):
        self.solver.add(c)
        self.pc.append(c)
        if self.model_ok:
            if self._model_true(c) is not True:
                self.model_ok = False

    # ------------------------------------------------------------------ decisions
    def decide(self, e):
        if self.mode != 'sym':
            # concrete replay: oracles written over SymChar constants only produce literal conditions
            e = z3.simplify(e)
            if z3.is_true(e):
                return True
            if z3.is_false(e):
                return False
            raise RuntimeError('symbolic decision in concrete mode')
        e = z3.simplify(e)
        if z3.is_true(e):
            return True
        if z3.is_false(e):
            return False
        i = len(self.trace)
        if i >= MAX_DECISIONS:
            raise PathBudget()
        if i < len(self.prefix):
            took = self.prefix[i]
            self.trace.append((took, False))
            self._add(e if took else z3.Not(e))
            return took
        # new decision: model-guided
        took = None
        if self._refresh_model():
            took = self._model_true(e)
        if took is None:
            r = self._check(e)
            if r == z3.sat:
                took = True
            elif r == z3.unsat:
                took = False
                r2 = self._check(z3.Not(e))
                if r2 == z3.unsat:
                    raise Abort()
                self.trace.append((False, False))
                self._add(z3.Not(e))
                self.model_ok = False
                return False
            else:
                # cannot establish either: explore both, tag
                self.maybe_infeasible = True
                self.trace.append((True, True))
                self._add(e)
                self.model_ok = False
                return True
        other = z3.Not(e) if took else e
        r = self._check(other)
        alt = r != z3.unsat
        if r == z3.unknown:
            alt = 'unknown'
        self.trace.append((took, alt))
        self._add(e if took else z3.Not(e))
        return took

    def assume(self, c):
        if isinstance(c, SymBool):
            c = c.e
        if isinstance(c, (bool, np.bool_)):
            if not c:
                raise Abort()
            return
        if self.mode != 'sym':
            raise RuntimeError('symbolic assume in concrete mode')
        c = z3.simplify(c)
        if z3.is_true(c):
            return
        if z3.is_false(c):
            raise Abort()
        self._add(c)
        if not self.model_ok:
            r = self._check()
            if r == z3.unsat:
                raise Abort()
            if r == z3.sat:
                self.model = self._get_model()
                self.model_ok = self.model is not None
            else:
                self.maybe_infeasible = True

    def fresh(self, sort, name):
        self.nfresh += 1
        return z3.Const('%s!%d' % (name, self.nfresh), sort)

    # ------------------------------------------------------------------ inputs
    def _conc_default(self, name, lo, hi):
        """concrete replay of a path's model: an input the symbolic path never created (it ended earlier, e.g. in an unsupported operation) is not
        constrained by that path - any value of its declared range continues the replay"""
        if lo is not None and hi is not None:
            return (lo + hi) / 2 if lo != hi else lo
        if lo is not None:
            return lo + 1
        if hi is not None:
            return hi - 1
        return 0

    def real(self, name, lo=None, hi=None, lo_open=False, hi_open=False):
        if self.mode == 'conc':
            self.inputs[name] = ('real', None)
            return float(self.values[name]) if name in self.values else float(self._conc_default(name, lo, hi))
        v = z3.Real(name)
        self.inputs[name] = ('real', v)
        self.ranges[name] = (lo if not is_sym(lo) else None, hi if not is_sym(hi) else None)
        cs = []
        if lo is not None:
            cs.append(v > lift(lo) if lo_open else v >= lift(lo))
        if hi is not None:
            cs.append(v < lift(hi) if hi_open else v <= lift(hi))
        if cs:
            self.assume(z3.And(cs))
        return SymReal(v)

    def int(self, name, lo=None, hi=None):
        if self.mode == 'conc':
            self.inputs[name] = ('int', None)
            return int(self.values[name]) if name in self.values else int(self._conc_default(name, lo, hi))
        v = z3.Int(name)
        self.inputs[name] = ('int', v)
        cs = []
        if lo is not None:
            cs.append(v >= lo)
        if hi is not None:
            cs.append(v <= hi)
        if cs:
            self.assume(z3.And(cs))
        return SymInt(v, lo, hi)

    def bool(self, name):
        if self.mode == 'conc':
            self.inputs[name] = ('bool', None)
            return bool(self.values.get(name, False))
        v = z3.Bool(name)
        self.inputs[name] = ('bool', v)
        return SymBool(v)

    def fork_bool(self, name):
        """A symbolic boolean that is immediately forked into a concrete Python bool."""
        b = self.bool(name)
        return bool(b)

    def fork_int(self, name, lo, hi):
        x = self.int(name, lo, hi)
        if self.mode == 'conc':
            return x
        return x.__index__()

    def choice(self, name, seq):
        seq = list(seq)
        return seq[self.fork_int(name, 0, len(seq) - 1)]

    # ------------------------------------------------------------------ obligations
    def _valid_model(self, m, extra):
        """z3 5.1 occasionally answers sat with a model that violates the assertions on mixed int/real non-linear queries
        (observed on the round-half-even witness of GeometricCredit): never trust a model that does not evaluate to true."""
        try:
            for c in list(self.pc) + [extra]:
                if not z3.is_true(m.eval(c, model_completion=True)):
                    return False
        except z3.Z3Exception:
            return False
        return True

    def _prove(self, ob):
        """returns ('ok'|'cex'|'unknown', model)"""
        ob = z3.simplify(ob)
        if z3.is_true(ob):
            return 'ok', None
        neg = z3.Not(ob)
        r = self._check(neg)
        if r == z3.unsat:
            return 'ok', None
        if r == z3.sat:
            m = self._get_model()
            if m is not None and self._valid_model(m, neg):
                return 'cex', m
            self.bad_models += 1
        # fallbacks: nlsat tactic (non-incremental), then the z3 4.8.12 binary
        t = time.time()
        self.queries += 1
        try:
            s2 = z3.Tactic('qfnra-nlsat').solver()
            s2.set('timeout', self.fallback_ms)
            s2.add(self.pc)
            s2.add(neg)
            r = s2.check()
        except z3.Z3Exception:
            r = z3.unknown
        self.solver_s += time.time() - t
        if r == z3.unsat:
            self.fallback_decided += 1
            return 'ok', None
        if r == z3.sat:
            m = s2.model()
            if self._valid_model(m, neg):
                return 'cex', m
        r = external_z3(self.pc + [neg], max(5, self.fallback_ms // 1000))
        self.queries += 1
        if r == 'unsat':
            self.fallback_decided += 1
            return 'ok', None
        return 'unknown', None

    def check(self, label, cond):
        """Obligation: cond must hold for every input on this path."""
        if isinstance(cond, SymBool):
            cond = cond.e
        if self.mode == 'conc':
            ok = self.decide(cond) if z3.is_expr(cond) else bool(cond)
            self.checks.append((label, 'ok' if ok else 'cex', None))
            if not ok:
                self.conc_failed.append(label)
            return ok
        if isinstance(cond, (bool, np.bool_)):
            if cond:
                self.checks.append((label, 'ok', None))
                return True
            # plain False on a feasible path: counterexample is any (validated) model of pc
            st, m = ('cex', None)
            self.model_ok = False
            if self._refresh_model() and self._valid_model(self.model, z3.BoolVal(True)):
                m = self.model
            else:
                st = 'unknown'
            self.checks.append((label, st, self._model_values(m) if m is not None else None))
            return False
        st, m = self._prove(cond)
        if st == 'cex':
            self._cex_neg[label] = z3.Not(cond)
        self.checks.append((label, st, self._model_values(m) if m is not None else None))
        return st == 'ok'

    def check_attainable(self, label, *conds):
        """Existential obligation (symbolic mode): on this path there must EXIST inputs satisfying each of conds (e.g. 'the endpoint can be drawn').
        sat -> discharged; unsat -> counterexample (any model of the path; the harness's concrete branch decides the same label by enumeration or
        by a real draw); unknown -> an inconclusive obligation, never a verdict."""
        assert self.mode == 'sym'
        verdicts = [self.sat_witness(label, c) if not isinstance(c, (bool, np.bool_)) else bool(c) for c in conds]
        if any(v is False for v in verdicts):
            return self.check(label, False)
        if any(v is None for v in verdicts):
            self.checks.append((label, 'unknown', None))
            return False
        self.checks.append((label, 'ok', None))
        return True

    def sat_witness(self, label, cond):
        """Attainability obligation: there must EXIST inputs on this path satisfying cond (e.g. 'endpoint attainable').
        Returns True/False/None. Recorded as a note, evaluated by the harness via E.note()."""
        if isinstance(cond, SymBool):
            cond = cond.e
        if self.mode == 'conc':
            return None
        r = self._check(cond)
        return True if r == z3.sat else (False if r == z3.unsat else None)

    def note(self, *a):
        self.notes.append(a)

    def axiom(self, name, formula):
        """Instantiate a listed axiom about an uninterpreted function (recorded in evidence)."""
        self.axioms_used.add(name)
        if self.mode == 'sym':
            self.assume(formula)

    # ------------------------------------------------------------------ models -> concrete values
    def _model_values(self, m, dyadic=False):
        out = {}
        for name, (kind, v) in self.inputs.items():
            if v is None:
                continue
            if kind == 'str':
                out[name] = ''.join(chr(_as_py(m.eval(c, model_completion=True))) for c in v)
                continue
            val = m.eval(v, model_completion=True)
            out[name] = _as_py(val)
        return out

    def path_model_values(self):
        if self.mode != 'sym':
            return None
        try:
            if not self._refresh_model():
                return None
        except Abort:
            return None
        return self._model_values(self.model)

    def dyadic_model_values(self, extra=None, denom=1024):
        """A model of pc (plus `extra`) in which every real input is k/denom."""
        s = z3.Solver()
        s.set('timeout', self.qtimeout_ms)
        s.add(self.pc)
        if extra is not None:
            s.add(extra)
        for name, (kind, v) in self.inputs.items():
            if kind == 'real':
                k = z3.Int('dy!' + name)
                s.add(v * denom == z3.ToReal(k))
        self.queries += 1
        t = time.time()
        r = s.check()
        self.solver_s += time.time() - t
        if r != z3.sat:
            return None
        return self._model_values(s.model())


def external_z3(assertions, timeout_s):
    """decide a conjunction with the system z3 (4.8.12) binary: 'sat' | 'unsat' | 'unknown'"""
    import subprocess
    import tempfile
    s = z3.Solver()
    s.add(assertions)
    try:
        with tempfile.NamedTemporaryFile('w', suffix='.smt2', dir='/var/tmp', delete=True) as f:
            f.write(s.to_smt2())
            f.flush()
            out = subprocess.run(['/usr/bin/z3', '-T:%d' % timeout_s, f.name], capture_output=True, text=True, timeout=timeout_s + 10).stdout
    except Exception:   # noqa
        return 'unknown'
    if '(error' in out:
        return 'unknown'
    first = out.strip().split('\n')[0].strip() if out.strip() else ''
    return first if first in ('sat', 'unsat') else 'unknown'


def _as_py(val):
    if z3.is_true(val):
        return True
    if z3.is_false(val):
        return False
    if z3.is_int_value(val):
        return val.as_long()
    if z3.is_rational_value(val):
        return fractions.Fraction(val.numerator_as_long(), val.denominator_as_long())
    if z3.is_algebraic_value(val):
        return fractions.Fraction(val.approx(20).numerator_as_long(), val.approx(20).denominator_as_long())
    raise Unsupported('model value %r' % (val,))


def jsonable(v):
    if isinstance(v, fractions.Fraction):
        if v.denominator == 1:
            return int(v)
        return {'frac': [str(v.numerator), str(v.denominator)], 'approx': float(v)}
    if isinstance(v, dict):
        return {str(k): jsonable(x) for k, x in v.items()}
    if isinstance(v, (list, tuple)):
        return [jsonable(x) for x in v]
    if isinstance(v, (str, int, float, bool)) or v is None:
        return v
    return repr(v)


def unjson(v):
    if isinstance(v, dict) and 'frac' in v:
        return fractions.Fraction(int(v['frac'][0]), int(v['frac'][1]))
    if isinstance(v, dict):
        return {k: unjson(x) for k, x in v.items()}
    if isinstance(v, list):
        return [unjson(x) for x in v]
    return v


# ---------------------------------------------------------------------- current engine
class _Cur:
    eng = None


def ENG():
    return _Cur.eng


def set_engine(e):
    _Cur.eng = e


# ---------------------------------------------------------------------- lifting
def lift(x):
    """Python/numpy/sym number -> z3 Real term.  Raises TypeError for anything else (incl. non-finite floats)."""
    if isinstance(x, SymReal):
        return x.e
    if isinstance(x, (bool, np.bool_)):
        return z3.RealVal(int(x))
    if isinstance(x, int):
        return z3.RealVal(x)
    if isinstance(x, float):
        if _is_nonfinite(x):
            raise TypeError('nonfinite')
        n, d = x.as_integer_ratio()
        return z3.RealVal(n) / z3.RealVal(d) if d != 1 else z3.RealVal(n)
    if isinstance(x, fractions.Fraction):
        return z3.RealVal(x.numerator) / z3.RealVal(x.denominator)
    if isinstance(x, np.generic):
        return lift(x.item())
    if isinstance(x, np.ndarray) and x.ndim == 0:
        return lift(x.item())
    if z3.is_expr(x):
        return z3.ToReal(x) if z3.is_int(x) else x
    raise TypeError(type(x))


def lift_bool(b):
    if isinstance(b, SymBool):
        return b.e
    if isinstance(b, (bool, np.bool_)):
        return z3.BoolVal(bool(b))
    if z3.is_expr(b):
        return b
    raise TypeError(type(b))


def is_sym(x):
    return isinstance(x, (SymReal, SymBool))


# ---------------------------------------------------------------------- SymBool
class SymBool:
    def __init__(self, e):
        self.e = e

    def __bool__(self):
        return ENG().decide(self.e)

    def __and__(self, o):
        return SymBool(z3.And(self.e, lift_bool(o)))

    __rand__ = __and__

    def __or__(self, o):
        return SymBool(z3.Or(self.e, lift_bool(o)))

    __ror__ = __or__

    def __invert__(self):
        return SymBool(z3.Not(self.e))

    def __eq__(self, o):
        if isinstance(o, SymBool):
            return SymBool(self.e == o.e)
        if isinstance(o, (bool, np.bool_)):
            return self if o else ~self
        return bool(self) == o

    def __ne__(self, o):
        r = self.__eq__(o)
        return ~r if isinstance(r, SymBool) else not r

    def __hash__(self):
        return hash(bool(self))

    def __repr__(self):
        return 'SymBool(%s)' % z3.simplify(self.e)

    def __array_ufunc__(self, ufunc, method, *inputs, **kw):
        name = ufunc.__name__
        if method == 'reduce' and name in ('logical_and', 'logical_or', 'bitwise_and', 'bitwise_or') and len(inputs) == 1 and inputs[0] is self:
            return self          # np.all / np.any of a single symbolic truth value
        if method == '__call__' and name in ('logical_and', 'bitwise_and'):
            return SymBool(z3.And([lift_bool(i) for i in inputs]))
        if method == '__call__' and name in ('logical_or', 'bitwise_or'):
            return SymBool(z3.Or([lift_bool(i) for i in inputs]))
        if method == '__call__' and name in ('logical_not', 'invert'):
            return ~self
        return NotImplemented


def _nb(b):
    return bool(b) if isinstance(b, np.bool_) else b


def sand(*bs):
    bs = [_nb(b) for b in bs]
    bs = [b for b in bs if b is not True]
    if any(b is False for b in bs):
        return False
    if not bs:
        return True
    return SymBool(z3.And([lift_bool(b) for b in bs]))


def sor(*bs):
    bs = [_nb(b) for b in bs]
    bs = [b for b in bs if b is not False]
    if any(b is True for b in bs):
        return True
    if not bs:
        return False
    return SymBool(z3.Or([lift_bool(b) for b in bs]))


def snot(b):
    b = _nb(b)
    if isinstance(b, SymBool):
        return ~b
    return not b


def simplies(a, b):
    return sor(snot(a), b)


def siff(a, b):
    a, b = _nb(a), _nb(b)
    if isinstance(a, SymBool) or isinstance(b, SymBool):
        return SymBool(lift_bool(a) == lift_bool(b))
    return bool(a) == bool(b)


def sif(c, a, b):
    """if-then-else on numbers without forking"""
    if isinstance(c, SymBool):
        return SymReal(z3.If(c.e, lift(a), lift(b)))
    return a if c else b


# ---------------------------------------------------------------------- uninterpreted functions
_UFS = {}


def uf(name, arity=1):
    k = (name, arity)
    if k not in _UFS:
        _UFS[k] = z3.Function(name, *([z3.RealSort()] * (arity + 1)))
    return _UFS[k]


UF_FACTS = {('sin', 0): 0.0, ('cos', 0): 1.0, ('tan', 0): 0.0, ('exp', 0): 1.0, ('sinh', 0): 0.0, ('cosh', 0): 1.0, ('tanh', 0): 0.0, ('arctan', 0): 0.0,
            ('arcsin', 0): 0.0, ('arcsinh', 0): 0.0, ('arctanh', 0): 0.0, ('log', 1): 0.0, ('log2', 1): 0.0, ('log10', 1): 0.0, ('expm1', 0): 0.0,
            ('log1p', 0): 0.0, ('cbrt', 0): 0.0, ('exp2', 0): 1.0, ('arccosh', 1): 0.0, ('arccos', 1): 0.0}
UF1_NAMES = ('sin cos tan exp sinh cosh tanh arctan arcsinh arccosh arcsin arccos arctanh log log2 log10 '
             'exp2 expm1 log1p cbrt').split()


# ---------------------------------------------------------------------- SymReal
class SymReal:
    __array_priority__ = 1000

    def __init__(self, e):
        self.e = e

    # -- arithmetic
    def _other(self, o):
        if isinstance(o, np.ndarray) and o.ndim > 0:
            return None
        if isinstance(o, (SymBool, str, bytes, type(None), list, tuple, dict, complex)):
            return None
        if isinstance(o, np.complexfloating):
            return None
        return o

    def _nonfinite(self, o, op, rev):
        """self (finite) op non-finite float"""
        if o != o:
            return o
        if op in ('add',):
            return o
        if op == 'sub':
            return -o if not rev else o
        if op == 'mul':
            if bool(self == 0):
                return math.nan
            return o if bool(self > 0) else -o
        if op == 'div':
            if rev:   # inf / x
                if bool(self == 0):
                    raise ZeroDivisionError('float division by zero')
                return o if bool(self > 0) else -o
            return 0.0
        raise Unsupported('nonfinite %s' % op)

    def _bin(self, o, op, rev=False):
        if isinstance(o, (complex, np.complexfloating, SymComplex)):
            me = SymComplex(self, 0)
            oc = o if isinstance(o, SymComplex) else SymComplex(o.real, o.imag)
            return me._bin(oc, op) if not rev else oc._bin(me, op)
        o = self._other(o)
        if o is None:
            return NotImplemented
        if _is_nonfinite(o):
            return self._nonfinite(o, op, rev)
        try:
            oe = lift(o)
        except TypeError:
            return NotImplemented
        a, b = (oe, self.e) if rev else (self.e, oe)
        bothint = isinstance(self, SymInt) and (isinstance(o, SymInt) or (isinstance(o, (int, np.integer)) and not isinstance(o, bool)))
        if op == 'add':
            r = a + b
        elif op == 'sub':
            r = a - b
        elif op == 'mul':
            r = a * b
        elif op == 'div':
            if bool(SymBool(b == 0)):
                raise ZeroDivisionError('float division by zero')
            return SymReal(a / b)
        else:
            raise Unsupported(op)
        if bothint:
            si = self.ie
            oi = o.ie if isinstance(o, SymInt) else z3.IntVal(int(o))
            x, y = (oi, si) if rev else (si, oi)
            ri = {'add': lambda: x + y, 'sub': lambda: x - y, 'mul': lambda: x * y}[op]()
            return SymInt(ri, *_ibounds(op, self, o, rev))
        return SymReal(r)

    def __add__(self, o): return self._bin(o, 'add')
    def __radd__(self, o): return self._bin(o, 'add', True)
    def __sub__(self, o): return self._bin(o, 'sub')
    def __rsub__(self, o): return self._bin(o, 'sub', True)
    def __mul__(self, o): return self._bin(o, 'mul')
    def __rmul__(self, o): return self._bin(o, 'mul', True)
    def __truediv__(self, o): return self._bin(o, 'div')
    def __rtruediv__(self, o): return self._bin(o, 'div', True)

    def __neg__(self): return SymReal(-self.e)
    def __pos__(self): return self
    def __abs__(self): return SymReal(z3.If(self.e >= 0, self.e, -self.e))

    def __floordiv__(self, o):
        q = (self / o)
        return q.floor() if isinstance(q, SymReal) else NotImplemented

    def __rfloordiv__(self, o):
        q = (o / self)
        return q.floor() if isinstance(q, SymReal) else math.floor(q)

    def __mod__(self, o):
        # Python semantics: x - m*floor(x/m)
        oo = self._other(o)
        if oo is None or _is_nonfinite(oo):
            return NotImplemented
        q = (self / o).floor()
        return self - q * o

    def __rmod__(self, o):
        q = (o / self).floor()
        return o - q * self

    def __pow__(self, o, mod=None):
        if isinstance(o, SymInt):
            n = o.__index__()
            return self ** n
        if isinstance(o, (int, np.integer)) or (isinstance(o, float) and o.is_integer() and abs(o) <= 16):
            n = int(o)
            if abs(n) <= 16:
                r = z3.RealVal(1)
                for _ in range(abs(n)):
                    r = r * self.e
                if n < 0:
                    if bool(SymBool(self.e == 0)):
                        raise ZeroDivisionError('0.0 cannot be raised to a negative power')
                    return SymReal(1 / r)
                return SymReal(r)
        oo = self._other(o)
        if oo is None or _is_nonfinite(oo):
            return NotImplemented
        try:
            oe = lift(oo)
        except TypeError:
            return NotImplemented
        oe = z3.simplify(oe)
        if z3.is_rational_value(oe):
            v = _as_py(oe)
            if v.denominator == 1 and abs(v.numerator) <= 16:
                return self ** int(v.numerator)       # an exponent that is a literal integer after simplification (e.g. 1 + 0*t)
        return _pow_term(self.e, oe)

    def __rpow__(self, o):
        try:
            oe = lift(o)
        except TypeError:
            return NotImplemented
        return _pow_term(oe, self.e)

    # -- comparisons
    def _cmp(self, o, f):
        if isinstance(o, float) and o != o:
            return False
        if isinstance(o, float) and o in (math.inf, -math.inf):
            return bool(f(0, 1 if o > 0 else -1))
        if isinstance(o, (np.ndarray,)) and o.ndim > 0:
            return NotImplemented
        try:
            oe = lift(o)
        except TypeError:
            return NotImplemented
        return SymBool(f(self.e, oe))

    def __lt__(self, o): return self._cmp(o, lambda a, b: a < b)
    def __le__(self, o): return self._cmp(o, lambda a, b: a <= b)
    def __gt__(self, o): return self._cmp(o, lambda a, b: a > b)
    def __ge__(self, o): return self._cmp(o, lambda a, b: a >= b)

    def __eq__(self, o):
        if _is_nonfinite(o):
            return False
        if isinstance(o, np.ndarray) and o.ndim > 0:
            return NotImplemented
        try:
            oe = lift(o)
        except TypeError:
            return False
        return SymBool(self.e == oe)

    def __ne__(self, o):
        r = self.__eq__(o)
        if r is NotImplemented:
            return r
        return (not r) if isinstance(r, bool) else ~r

    def __bool__(self):
        return bool(SymBool(self.e != 0))

    HASH_CANDIDATES = (0, 1)

    def __hash__(self):
        for c in SymReal.HASH_CANDIDATES:
            if bool(SymBool(self.e == c)):
                return hash(c)
        return 0x5EED1234

    def __copy__(self): return self
    def __deepcopy__(self, m): return self
    def __repr__(self): return POISON
    def __str__(self): return POISON
    def __format__(self, spec): return POISON

    def __float__(self):
        raise Unsupported('float() of a symbolic real')

    def __int__(self):
        e = z3.simplify(self.e)
        if z3.is_rational_value(e):        # a constant in symbolic clothing (x - x + 2): int() truncates towards zero, as for float
            return int(_as_py(e))
        raise Unsupported('int() of a symbolic real')

    def __complex__(self):
        raise Unsupported('complex() of a symbolic real')

    def is_integer(self):
        return SymBool(z3.IsInt(self.e))

    # -- witnesses
    def _memo(self, kind, key_expr, make):
        E = ENG()
        k = (kind, key_expr.get_id())
        if k not in E.memo:
            E.memo[k] = (key_expr, make())      # keep key_expr alive so the id stays unique
        return E.memo[k][1]

    def floor(self):
        def make():
            E = ENG()
            k = E.fresh(z3.IntSort(), 'floor')
            E.assume(z3.And(z3.ToReal(k) <= self.e, self.e < z3.ToReal(k) + 1))
            return k
        if isinstance(self, SymInt):
            return self
        e = z3.simplify(self.e)
        if z3.is_rational_value(e):
            return math.floor(_as_py(e))
        return SymInt(self._memo('floor', e, make))

    def ceil(self):
        f = (-self).floor()
        return -f

    __floor__ = floor
    __ceil__ = ceil

    def __trunc__(self):
        if bool(self >= 0):
            return self.floor()
        return self.ceil()

    def __round__(self, nd=None):
        scale = 10 ** (nd or 0)
        x = z3.simplify(self.e * scale)

        def make():
            E = ENG()
            k = E.fresh(z3.IntSort(), 'rnd')
            half = z3.Q(1, 2)
            kr = z3.ToReal(k)
            E.assume(z3.And(kr - x <= half, x - kr <= half,
                            z3.Implies(kr - x == half, k % 2 == 0),
                            z3.Implies(x - kr == half, k % 2 == 0)))
            return k
        k = self._memo('round', x, make)
        if nd is None:
            return SymInt(k)
        return SymReal(z3.ToReal(k) / scale)

    def sqrt(self):
        if bool(SymBool(self.e < 0)):
            return math.nan    # numpy semantics on reals: nan + warning
        e = z3.simplify(self.e)
        # sqrt(t*t) = |t| without a witness (keeps scalar |x-y| comparisons linear)
        if z3.is_app_of(e, z3.Z3_OP_MUL) and e.num_args() == 2 and z3.eq(e.arg(0), e.arg(1)):
            t = e.arg(0)
            return SymReal(z3.If(t >= 0, t, -t))
        if z3.is_app_of(e, z3.Z3_OP_POWER) and z3.is_rational_value(e.arg(1)) and e.arg(1).numerator_as_long() == 2 and e.arg(1).denominator_as_long() == 1:
            t = e.arg(0)
            return SymReal(z3.If(t >= 0, t, -t))
        if z3.is_rational_value(e):
            v = _as_py(e)
            import math as _m
            rt = fractions.Fraction(_m.isqrt(v.numerator), _m.isqrt(v.denominator)) if v >= 0 else None
            if rt is not None and rt * rt == v:
                return SymReal(z3.RealVal(rt.numerator) / z3.RealVal(rt.denominator))

        def make():
            E = ENG()
            r = E.fresh(z3.RealSort(), 'sqrt')
            E.assume(z3.And(r >= 0, r * r == e))
            return r
        return SymReal(self._memo('sqrt', e, make))

    # -- numpy protocol
    real = property(lambda self: self)
    imag = property(lambda self: 0)

    def conjugate(self): return self
    conj = conjugate

    def _uf1(name):
        def m(self):
            e = z3.simplify(self.e)
            if z3.is_rational_value(e):
                v = _as_py(e)
                if (name, v) in UF_FACTS:
                    return UF_FACTS[(name, v)]       # exact values at 0 / 1 (true facts about the primitives, not assumptions)
            return SymReal(uf(name)(self.e))
        m.__name__ = name
        return m
    for _n in UF1_NAMES:
        locals()[_n] = _uf1(_n)
    del _n, _uf1

    def __array_function__(self, func, types, args, kwargs):
        name = getattr(func, '__name__', '')
        if name in ('isclose', 'allclose') and len(args) >= 2 and not any(isinstance(a, np.ndarray) and a.ndim > 0 for a in args[:2]):
            a, b = args[0], args[1]
            rtol = kwargs.get('rtol', args[2] if len(args) > 2 else 1e-05)
            atol = kwargs.get('atol', args[3] if len(args) > 3 else 1e-08)
            return abs(a - b) <= atol + rtol * abs(b)
        return func._implementation(*args, **kwargs)

    def __array_ufunc__(self, ufunc, method, *inputs, **kw):
        if method != '__call__':
            return NotImplemented
        out = kw.pop('out', None)
        if kw:
            return NotImplemented
        name = ufunc.__name__
        if any(isinstance(i, np.ndarray) and i.ndim > 0 for i in inputs):
            arrs = [i.astype(object) if isinstance(i, np.ndarray) else i for i in inputs]
            arrs = [a if isinstance(a, np.ndarray) else _obj0(a) for a in arrs]
            res = ufunc(*arrs)
            if out is not None:
                tgt = out[0] if isinstance(out, tuple) else out
                if tgt.dtype != object:
                    return NotImplemented
                tgt[...] = res
                return tgt
            for i in inputs:
                if isinstance(i, np.ndarray) and type(i) is not np.ndarray:
                    return res.view(type(i))
            return res
        if out is not None:
            return NotImplemented
        ins = [i.item() if isinstance(i, (np.ndarray, np.generic)) else i for i in inputs]      # numpy scalars (np.float64 ...) as python numbers
        return scalar_ufunc(name, ins)


def _pow_term(a, b):
    """x^y as an uninterpreted function, with the instantiated axiom  x > 0  =>  x^y > 0"""
    t = uf('pow', 2)(a, b)
    E = ENG()
    if E is not None and E.mode == 'sym':
        E.axiom('pow(x,y) > 0 for x > 0', z3.Implies(a > 0, t > 0))
    return SymReal(t)


def _obj0(a):
    o = np.empty((), dtype=object)
    o[()] = a
    return o


_BINOPS = {
    'add': lambda a, b: a + b, 'subtract': lambda a, b: a - b, 'multiply': lambda a, b: a * b,
    'true_divide': lambda a, b: a / b, 'divide': lambda a, b: a / b, 'power': lambda a, b: a ** b,
    'float_power': lambda a, b: a ** b, 'floor_divide': lambda a, b: a // b, 'remainder': lambda a, b: a % b,
    'mod': lambda a, b: a % b,
    'less_equal': lambda a, b: a <= b, 'less': lambda a, b: a < b, 'greater': lambda a, b: a > b,
    'greater_equal': lambda a, b: a >= b, 'equal': lambda a, b: a == b, 'not_equal': lambda a, b: a != b,
    'maximum': lambda a, b: smax(a, b), 'minimum': lambda a, b: smin(a, b),
}


def scalar_ufunc(name, ins):
    if name in ('isinf', 'isnan'):
        return False
    if name == 'isfinite':
        return True
    if name in ('absolute', 'fabs'):
        return abs(ins[0])
    if name == 'negative':
        return -ins[0]
    if name == 'positive':
        return ins[0]
    if name in ('conjugate', 'conj'):
        return ins[0].conjugate() if hasattr(ins[0], 'conjugate') else ins[0]
    if name == 'sqrt':
        return ins[0].sqrt()
    if name == 'square':
        return ins[0] * ins[0]
    if name == 'reciprocal':
        return 1 / ins[0]
    if name == 'sign':
        x = ins[0]
        return SymReal(z3.If(x.e > 0, z3.RealVal(1), z3.If(x.e < 0, z3.RealVal(-1), z3.RealVal(0))))
    if name in ('floor', 'ceil', 'trunc', 'rint'):
        x = ins[0]
        return {'floor': x.floor, 'ceil': x.ceil, 'trunc': x.__trunc__, 'rint': x.__round__}[name]()
    if name in _BINOPS:
        return _BINOPS[name](*ins)
    if name == 'arctan2':
        return SymReal(uf('arctan2', 2)(lift(ins[0]), lift(ins[1])))
    if len(ins) == 1 and name in UF1_NAMES:
        return getattr(ins[0], name)()
    return NotImplemented


def smax(a, b):
    if not is_sym(a) and not is_sym(b):
        return max(a, b)
    return SymReal(z3.If(lift(a) >= lift(b), lift(a), lift(b)))


def smin(a, b):
    if not is_sym(a) and not is_sym(b):
        return min(a, b)
    return SymReal(z3.If(lift(a) <= lift(b), lift(a), lift(b)))


numbers.Real.register(SymReal)


class SymComplex:
    """complex number whose real and imaginary parts are (possibly symbolic) reals"""
    __array_priority__ = 1001

    def __init__(self, re, im):
        self.re, self.im = SymComplex._norm(re), SymComplex._norm(im)

    @staticmethod
    def _norm(x):
        if isinstance(x, SymReal):
            e = z3.simplify(x.e)
            if z3.is_rational_value(e):
                v = _as_py(e)
                return int(v) if v.denominator == 1 else float(v) if float(v) == v else v
            return x if isinstance(x, SymInt) else SymReal(e)
        return x

    real = property(lambda self: self.re)
    imag = property(lambda self: self.im)

    @staticmethod
    def _c(o):
        if isinstance(o, SymComplex):
            return o
        if isinstance(o, (complex, np.complexfloating)):
            return SymComplex(float(o.real), float(o.imag))
        if isinstance(o, (SymReal, int, float, np.integer, np.floating, fractions.Fraction)) and not isinstance(o, bool):
            return SymComplex(o, 0)
        return None

    def _bin(self, o, op):
        o = SymComplex._c(o)
        if o is None:
            return NotImplemented
        a, b, c, d = self.re, self.im, o.re, o.im
        if op == 'add':
            return SymComplex(a + c, b + d)
        if op == 'sub':
            return SymComplex(a - c, b - d)
        if op == 'mul':
            return SymComplex(a * c - b * d, a * d + b * c)
        if op == 'div':
            den = c * c + d * d
            return SymComplex((a * c + b * d) / den, (b * c - a * d) / den)
        raise Unsupported(op)

    def __add__(self, o): return self._bin(o, 'add')
    __radd__ = __add__
    def __sub__(self, o): return self._bin(o, 'sub')
    def __rsub__(self, o):
        o = SymComplex._c(o)
        return NotImplemented if o is None else o._bin(self, 'sub')
    def __mul__(self, o): return self._bin(o, 'mul')
    __rmul__ = __mul__
    def __truediv__(self, o): return self._bin(o, 'div')
    def __rtruediv__(self, o):
        o = SymComplex._c(o)
        return NotImplemented if o is None else o._bin(self, 'div')
    def __neg__(self): return SymComplex(-self.re, -self.im)
    def __pos__(self): return self
    def conjugate(self): return SymComplex(self.re, -self.im)
    conj = conjugate

    def __abs__(self):
        n2 = self.re * self.re + self.im * self.im
        return n2.sqrt() if isinstance(n2, SymReal) else math.sqrt(n2)

    def __eq__(self, o):
        o = SymComplex._c(o)
        if o is None:
            return False
        return sand(self.re == o.re, self.im == o.im)

    def __ne__(self, o):
        return snot(self.__eq__(o))

    __hash__ = None

    def __copy__(self): return self
    def __deepcopy__(self, m): return self
    def __repr__(self): return POISON
    __str__ = __repr__
    def __format__(self, spec): return POISON

    def exp(self):
        """e^(a+ib) = e^a (cos b + i sin b); cos/sin/exp uninterpreted, with the instantiated axiom cos^2 + sin^2 = 1"""
        b = self.im if isinstance(self.im, SymReal) else SymReal(lift(self.im))
        c, s = b.cos(), b.sin()
        E = ENG()
        if E is not None and E.mode == 'sym':
            E.axiom('cos(t)^2 + sin(t)^2 = 1', c.e * c.e + s.e * s.e == 1)
        zero_re = not isinstance(self.re, SymReal) and self.re == 0
        if zero_re:
            return SymComplex(c, s)
        a = self.re if isinstance(self.re, SymReal) else SymReal(lift(self.re))
        m = a.exp()
        return SymComplex(m * c, m * s)

    def __array_ufunc__(self, ufunc, method, *inputs, **kw):
        if method != '__call__' or kw:
            return NotImplemented
        name = ufunc.__name__
        if any(isinstance(i, np.ndarray) and i.ndim > 0 for i in inputs):
            arrs = [i.astype(object) if isinstance(i, np.ndarray) else _obj0(i) for i in inputs]
            return ufunc(*arrs)
        ins = [i.item() if isinstance(i, (np.ndarray, np.generic)) else i for i in inputs]
        if name == 'exp':
            return ins[0].exp()
        if name in ('conjugate', 'conj'):
            return ins[0].conjugate()
        if name in ('absolute', 'fabs'):
            return abs(ins[0])
        if name in ('isinf', 'isnan'):
            return False
        if name == 'isfinite':
            return True
        ops = {'add': 'add', 'subtract': 'sub', 'multiply': 'mul', 'true_divide': 'div', 'divide': 'div'}
        if name in ops:
            a = SymComplex._c(ins[0])
            return NotImplemented if a is None else a._bin(ins[1], ops[name])
        if name == 'negative':
            return -ins[0]
        if name == 'equal':
            return ins[0] == ins[1]
        return NotImplemented


numbers.Complex.register(SymComplex)


# ---------------------------------------------------------------------- SymInt
def _ibounds(op, a, b, rev):
    alo, ahi = a.lo, a.hi
    if isinstance(b, SymInt):
        blo, bhi = b.lo, b.hi
    else:
        blo = bhi = int(b)
    if rev:
        alo, ahi, blo, bhi = blo, bhi, alo, ahi
    if None in (alo, ahi, blo, bhi):
        return (None, None)
    if op == 'add':
        return (alo + blo, ahi + bhi)
    if op == 'sub':
        return (alo - bhi, ahi - blo)
    if op == 'mul':
        c = [alo * blo, alo * bhi, ahi * blo, ahi * bhi]
        return (min(c), max(c))
    return (None, None)


class SymInt(SymReal):
    """integer-valued symbolic; .ie is the Int-sorted term, .e its real embedding"""

    def __init__(self, ie, lo=None, hi=None):
        self.ie = ie
        self.e = z3.ToReal(ie)
        self.lo, self.hi = lo, hi

    def __neg__(self):
        return SymInt(-self.ie, None if self.hi is None else -self.hi, None if self.lo is None else -self.lo)

    def __abs__(self):
        return SymInt(z3.If(self.ie >= 0, self.ie, -self.ie), 0 if self.lo is not None else None,
                      max(abs(self.lo), abs(self.hi)) if None not in (self.lo, self.hi) else None)

    def is_integer(self):
        return True

    def _ibin(self, o, f, rev):
        if isinstance(o, SymInt):
            oi = o.ie
        elif isinstance(o, (int, np.integer)) and not isinstance(o, bool):
            oi = z3.IntVal(int(o))
        else:
            return None
        return f(oi, self.ie) if rev else f(self.ie, oi)

    def __floordiv__(self, o):
        if isinstance(o, (int, np.integer)) and not isinstance(o, bool) and o > 0:
            return SymInt(self.ie / z3.IntVal(int(o)))     # z3 int div == floor for positive divisor
        return SymReal.__floordiv__(self, o)

    def __mod__(self, o):
        if isinstance(o, (int, np.integer)) and not isinstance(o, bool) and o > 0:
            return SymInt(self.ie % z3.IntVal(int(o)), 0, int(o) - 1)
        return SymReal.__mod__(self, o)

    def __index__(self):
        E = ENG()
        e = z3.simplify(self.ie)
        if z3.is_int_value(e):
            return e.as_long()
        lo, hi = self.lo, self.hi
        if lo is None or hi is None or hi - lo > 2048:
            raise Unsupported('concretising an integer without a small declared range')
        for v in range(lo, hi):
            if E.decide(self.ie == v):
                return v
        E.assume(self.ie == hi)
        return hi

    def __int__(self):
        return self.__index__()

    def __float__(self):
        return float(self.__index__())

    def __hash__(self):
        return hash(self.__index__())

    def __round__(self, nd=None):
        return self

    def floor(self): return self
    def ceil(self): return self
    __floor__ = floor
    __ceil__ = ceil
    __trunc__ = floor


numbers.Integral.register(SymInt)


def sym_e(x):
    """z3 Real term of a (possibly concrete) number"""
    return lift(x)


def ssum(xs):
    r = 0
    for x in xs:
        r = r + x
    return r


EPS = 1e-9


def _x(v):
    """exact view of a concrete number"""
    if isinstance(v, (float, np.floating)):
        return fractions.Fraction(float(v))
    if isinstance(v, (int, np.integer)):
        return fractions.Fraction(int(v))
    return v


def _cplx(v):
    return isinstance(v, (complex, np.complexfloating))


def near_eq(a, b):
    """a == b: exact on symbolic terms; up to EPS (relative) on concrete floats"""
    if is_sym(a) or is_sym(b):
        return a == b
    if _cplx(a) or _cplx(b) or _is_nonfinite(a) or _is_nonfinite(b) or a != a or b != b:
        if a != a or b != b:
            return a != a and b != b
        if _is_nonfinite(a) or _is_nonfinite(b):
            return a == b
        return abs(a - b) <= EPS * (1 + abs(b))
    a, b = _x(a), _x(b)
    return abs(a - b) <= EPS * (1 + abs(b))


def near_le(a, b):
    if is_sym(a) or is_sym(b):
        return a <= b
    if _is_nonfinite(a) or _is_nonfinite(b):
        return a <= b
    a, b = _x(a), _x(b)
    return a <= b + EPS * (1 + abs(b))


def strictly_lt(a, b):
    """a < b robustly (concrete: by more than EPS)"""
    if is_sym(a) or is_sym(b):
        return a < b
    a, b = _x(a), _x(b)
    return a < b - EPS * (1 + abs(b))
