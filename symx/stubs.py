"""Stubs / shadows used by harnesses.  Each is listed in the evidence of the check that uses it.

A *shadow* rebinds a global NAME in one repository MODULE for the duration of a `with` block (name resolution only, no
source change).  All shadows delegate to the original for ordinary concrete values, so they are also valid in concrete replay.
"""
import builtins
import contextlib
import decimal
import numbers

import numpy as np

from .core import SymReal, SymInt, SymBool, ENG, POISON, is_sym, Unsupported


@contextlib.contextmanager
def shadow(module, **names):
    missing = object()
    old = {k: module.__dict__.get(k, missing) for k in names}
    module.__dict__.update(names)
    try:
        yield
    finally:
        for k, v in old.items():
            if v is missing:
                module.__dict__.pop(k, None)
            else:
                module.__dict__[k] = v


@contextlib.contextmanager
def patched(obj, **attrs):
    missing = object()
    old = {k: obj.__dict__.get(k, missing) if hasattr(obj, '__dict__') else getattr(obj, k, missing) for k in attrs}
    for k, v in attrs.items():
        setattr(obj, k, v)
    try:
        yield
    finally:
        for k, v in old.items():
            if v is missing:
                try:
                    delattr(obj, k)
                except AttributeError:
                    pass
            else:
                setattr(obj, k, v)


def sym_float(v=0.0):
    return v if isinstance(v, SymReal) else builtins.float(v)


class _StrMeta(type):
    def __instancecheck__(cls, obj):
        return builtins.isinstance(obj, builtins.str) or type(obj).__name__ in ('SymStr',)


class sym_str(metaclass=_StrMeta):
    """`str` for a module namespace: str(x) of a symbolic string is that string; as a TYPE (schemas) it accepts str and SymStr"""

    def __new__(cls, x=''):
        if type(x).__name__ in ('SymStr', 'SymChar'):
            return x
        return builtins.str(x)


def sym_int(v=0, *a):
    if isinstance(v, SymInt):
        return v
    if isinstance(v, SymReal):
        return v.__trunc__()
    return builtins.int(v, *a)


class DecShim:
    """Decimal(x).quantize(...) of a symbolic value: only used to RENDER a percentage, which is formatting (stubbed)."""

    def __init__(self, v):
        self.v = v

    def quantize(self, q):
        return self

    def __eq__(self, o):
        return False

    def __int__(self):
        return 0

    def __format__(self, s):
        return POISON

    __str__ = __repr__ = lambda self: POISON


def sym_Decimal(v=0):
    return DecShim(v) if isinstance(v, SymReal) else decimal.Decimal(v)


def sym_isinstance(obj, cls):
    """isinstance that lets SymReal pass as float, SymInt as int and SymStr as str (the types a real caller would supply)"""
    if type(obj).__name__ == 'SymStr' and type(obj).__module__.endswith('symx.text'):
        cs = cls if isinstance(cls, tuple) else (cls,)
        if str in cs:
            return True
    if isinstance(obj, SymReal):
        cs = cls if isinstance(cls, tuple) else (cls,)
        if isinstance(obj, SymInt):
            if int in cs:
                return True
        elif float in cs:
            return True
        if bool in cs and len(cs) == 1:
            return False
    return builtins.isinstance(obj, cls)


class NpObjProxy:
    """numpy proxy for a module namespace: float-array constructors give object arrays when symbolic values are about to be
    stored, and isinf/isnan work elementwise on object arrays."""

    def __getattr__(self, n):
        return getattr(np, n)

    @staticmethod
    def _ew(f, x):
        if isinstance(x, np.ndarray) and x.dtype == object:
            out = np.empty(x.shape, dtype=bool)
            for idx in np.ndindex(*x.shape):
                out[idx] = bool(f(x[idx]))
            return out
        return f(x)

    def isinf(self, x):
        return NpObjProxy._ew(np.isinf, x)

    def isnan(self, x):
        return NpObjProxy._ew(np.isnan, x)

    def zeros(self, shape, dtype=None):
        if dtype is None and ENG() is not None and ENG().mode == 'sym':
            a = np.empty(shape, dtype=object)
            a.fill(0)
            return a
        return np.zeros(shape) if dtype is None else np.zeros(shape, dtype)


# ------------------------------------------------------------------------------------------------ TableGrader
def make_table_grader(table, msgs=None, tag=True):
    """An author-defined ItemGrader (the documented extension point) whose credit for (expect, input) is table[(expect, input)]."""
    from mitxgraders.baseclasses import ItemGrader

    class TableGrader(ItemGrader):
        calls = []

        def check_response(self, answer, student_input, **kwargs):
            key = (answer['expect'].strip(), student_input.strip())
            g = table[key]
            TableGrader.calls.append(key)
            if msgs is not None:
                m = msgs.get(key, '')
            else:
                m = '%s/%s' % key if tag else ''
            return {'ok': self.grade_decimal_to_ok(g), 'grade_decimal': g, 'msg': m}

    return TableGrader


def grade_e(entry):
    return entry['grade_decimal']


def wellformed(entry, allow_extra=()):
    """(structure_ok: bool, numeric_ok: SymBool|bool) for one edX result entry"""
    from .core import sand, siff
    keys = set(entry.keys())
    shape_ok = keys == {'ok', 'grade_decimal', 'msg'} | set(allow_extra) and isinstance(entry['msg'], str)
    g = entry['grade_decimal']
    okv = entry['ok']
    if isinstance(g, bool) or not isinstance(g, (numbers.Number, SymReal)):
        return False, False
    num_ok = sand(g >= 0, g <= 1, siff(g == 1, okv is True), siff(g == 0, okv is False),
                  okv is True or okv is False or okv == 'partial')
    return shape_ok, num_ok


# ------------------------------------------------------------------------------------------------ samplers / RNG
def make_sym_sampler(E, prefix, lo, hi):
    """author-defined VariableSamplingSet whose draws are fresh symbolic reals in [lo, hi]; records the draws"""
    from mitxgraders.sampling import VariableSamplingSet

    class SymSampler(VariableSamplingSet):
        schema_config = __import__('voluptuous').Schema({})
        draws = []

        def gen_sample(self):
            v = E.real('%s%d' % (prefix, len(SymSampler.draws)), lo, hi)
            SymSampler.draws.append(v)
            return v

    return SymSampler


class SymRandom:
    """np.random replacement: documented contracts only.  random_sample/rand -> fresh reals in [0,1); randint(lo,hi) -> fresh
    int in [lo,hi); uniform(a,b) -> fresh real in [a,b)."""

    def __init__(self, E, prefix='rng'):
        self.E = E
        self.prefix = prefix
        self.n = 0

    def _name(self):
        self.n += 1
        return '%s%d' % (self.prefix, self.n)

    def _one(self):
        return self.E.real(self._name(), 0, 1, hi_open=True)

    def _arr(self, shape):
        if shape is None or shape == ():
            return self._one()
        if isinstance(shape, (int, np.integer)):
            shape = (int(shape),)
        a = np.empty(tuple(shape), dtype=object)
        for idx in np.ndindex(*a.shape):
            a[idx] = self._one()
        if self.E.mode == 'conc':
            a = a.astype(float)
        return a

    def random_sample(self, size=None):
        return self._arr(size)

    random = random_sample

    def rand(self, *shape):
        return self._arr(shape if shape else None)

    def uniform(self, low=0.0, high=1.0, size=None):
        u = self._arr(size)
        return low + (high - low) * u

    def randint(self, low, high=None, size=None):
        if high is None:
            low, high = 0, low
        if size is not None:
            raise Unsupported('randint with size')
        lo = low.__index__() if isinstance(low, SymInt) else int(low)
        hi = high.__index__() if isinstance(high, SymInt) else int(high)
        if hi <= lo:
            raise ValueError('low >= high')
        return self.E.int(self._name(), lo, hi - 1)

    def seed(self, *a):
        pass

    def __getattr__(self, n):
        raise Unsupported('np.random.%s is not stubbed' % n)


class NpRandomProxy(NpObjProxy):
    """module-level `np` replacement exposing a stubbed .random"""

    def __init__(self, rng):
        self.random = rng
